"""C16 - buffers, pickle, NumPy and Arrow conversions are lossless (tier P: convert.py / highlevel.py on the emulation)."""
import pickle

import numpy as np
from hypothesis import strategies as st

from akgen import gen
from akmodel import core as M
from checks import known as K
from checks import pcommon as P
from vlib.common import Violation, HarnessError

ID = "C16"
MANIFEST = {
    "technique": "round-trip property testing (Hypothesis): to_buffers/from_buffers, pickle, to_numpy/from_numpy and to_arrow/from_arrow of generated physical encodings, each result read back through an independent evaluator and compared with the generated value; pyarrow's own to_pylist as a third reader",
    "level_text": "Generated-input exploration at the Python level (the unmodified convert.py / highlevel.py running on libawkward built from /repo): arrays of every node class and physical encoding (all index widths, non-zero offset origins, unreachable content, all five option encodings, strided and n-dimensional NumpyArrays, records, tuples, unions, strings, bytestrings, unknown type) and partitioned arrays; round trips through ak.to_buffers/ak.from_buffers (default and custom form_key/key_format, containers of NumPy arrays and of raw bytes, form as object and as JSON text, lazy=True), pickle (arrays, records, partitioned arrays), ak.to_numpy/ak.from_numpy on rectilinear and masked data (regulararray on/off, generated dtypes, strides and masks) and ak.to_arrow/ak.from_arrow (list_to32, string_to32, bytestring_to32, allow_tensor). Oracle: the generated value and type; for Arrow also pyarrow's to_pylist and the option structure below the top level. Held on everything generated outside the recorded known findings.",
    "level_note": "Trusted: akmodel.decode as the reader of results, NumPy and pyarrow as third parties, and the akshim emulation of the pybind11 module awkward._ext (the binding cannot be compiled in this sandbox, so its pickling hooks and buffer-protocol code are re-stated, not tested). pyarrow 25 / numpy 2.5 are far newer than the versions 1.4.0 was written for: a failure that only reflects that drift is not counted against the library (see DESIGN.md, C16). Parquet files and CUDA buffers are out of scope.",
}
RULE = ("case = (route, physical description or NumPy array spec, options); expected = the generated value (and type string for buffers/pickle); "
        "non-trivial = the array is non-empty and its encoding has a non-zero offset origin, unreachable content, a non-64-bit index, a non-Indexed option encoding, "
        "a strided or n-d NumpyArray, a union, or >1 partition; distinct by hash of the case")
ASSUMPTIONS = ["tuples come back from Arrow as records with fields '0', '1', ... (Arrow structs have named fields): compared field by field",
               "Arrow cannot distinguish ?union[X, Y] from union[?X, ?Y], nor option-ness at the top level or of the null (unknown) type: not compared",
               "regular-vs-variable list types, record names and other parameters are not expected to survive Arrow (the property only demands the value and option-ness)"]
PLAN = {
    "quick": [{"flavour": "plain", "cases": 9000}, {"flavour": "san", "cases": 900}],
    "thorough": [{"flavour": "plain", "cases": 300000}, {"flavour": "san", "cases": 40000}],
}
WALL_CAP = {"quick": 900, "thorough": 3300}
FORK_EACH = False

CFG = gen.Cfg(max_depth=3, complex_=False, max_len=5, max_list=3)
CFG_ARROW = gen.Cfg(max_depth=3, complex_=False, max_len=5, max_list=3)
NP_DTYPES = ["bool", "int8", "uint8", "int16", "uint16", "int32", "uint32", "int64", "uint64", "float32", "float64", "complex128"]


def setup(flavour, tier):
    P.ak()


# ------------------------------------------------------------------------------------------------ generation
@st.composite
def _layout_case(draw, cfg):
    if draw(st.integers(0, 11)) == 0:
        # a wide tuple or record (10-13 fields), bare or inside a list: field order beyond the ninth slot (added after the
        # seeded change C16-a - tuple slots re-ordered as strings "0","1","10","11","2",... by from_buffers - was missed)
        nf = draw(st.integers(10, 13))
        istuple = draw(st.booleans())
        kinds = [draw(st.sampled_from([M.prim("int64"), M.prim("float64"), M.prim("bool"), ["list", M.prim("int64")]])) for _ in range(nf)]
        names = [str(i) for i in range(nf)] if istuple else ["f%d" % ((i * 7) % nf) for i in range(nf)]
        T = ["record", [[n, k] for n, k in zip(names, kinds)], istuple, draw(st.sampled_from([None, None, "Wide"]))]
        if draw(st.booleans()):
            T = ["list", T]
        wcfg = gen.Cfg(max_depth=3, complex_=False, max_len=3, max_list=2)
        vals = draw(gen.values(T, wcfg))
        return draw(gen.encode(T, vals, wcfg))
    T = draw(gen.types(cfg))
    vals = draw(gen.values(T, cfg))
    return draw(gen.encode(T, vals, cfg))


@st.composite
def _rect_case(draw):
    """rectilinear value, options only directly above the leaves"""
    ndim = draw(st.integers(1, 3))
    shape = [draw(st.integers(0, 3)) for _ in range(ndim)]
    dt = draw(st.sampled_from(["int64", "float64", "bool", "int32"]))
    leafopt = draw(st.booleans())
    kinds = [draw(st.sampled_from(["regular", "list"])) for _ in range(ndim - 1)]
    T = M.prim(dt)
    if leafopt:
        T = M.option_of(T)
    for k, n in zip(reversed(kinds), reversed(shape[1:])):
        T = ["regular", T, n] if k == "regular" else ["list", T]
    cfg = gen.Cfg(leaf_dtypes=(dt,), max_depth=3)

    def build(level):
        if level == ndim:
            if leafopt and draw(st.integers(0, 3)) == 0:
                return None
            return draw(gen.leaf_strategy(dt, cfg))
        return [build(level + 1) for _ in range(shape[level])]
    vals = build(0)
    return {"desc": draw(gen.encode(T, vals, cfg)), "shape": shape, "dtype": dt}


@st.composite
def _numpy_spec(draw):
    ndim = draw(st.integers(1, 3))
    shape = [draw(st.integers(0, 3)) for _ in range(ndim)]
    dt = draw(st.sampled_from(NP_DTYPES))
    n = int(np.prod(shape))
    if dt == "bool":
        flat = [draw(st.booleans()) for _ in range(n)]
    elif dt.startswith("complex"):
        flat = [[draw(st.integers(-8, 8)) / 4.0, draw(st.integers(-8, 8)) / 4.0] for _ in range(n)]
    elif dt.startswith("float"):
        flat = [draw(st.integers(-64, 64)) / 4.0 for _ in range(n)]
    else:
        info = np.iinfo(dt)
        flat = [draw(st.one_of(st.integers(max(info.min, -9), min(info.max, 9)), st.sampled_from([int(info.min), int(info.max)]))) for _ in range(n)]
    mask = None
    if draw(st.integers(0, 2)) == 0:
        mask = [draw(st.booleans()) for _ in range(n)]
    return {"shape": shape, "dtype": dt, "flat": flat, "mask": mask, "step": draw(st.sampled_from([1, 1, 2, -1])), "regulararray": draw(st.booleans()),
            "order": draw(st.sampled_from(["C", "F"]))}


@st.composite
def strategy_(draw):
    route = draw(st.sampled_from(["buffers", "buffers", "pickle", "arrow", "arrow", "to_numpy", "from_numpy", "partitioned"]))
    if route in ("buffers", "pickle"):
        case = {"route": route, "desc": draw(_layout_case(CFG))}
        if route == "buffers":
            case["opts"] = {"container": draw(st.sampled_from(["numpy", "bytes", "bytearray"])),
                            "form": draw(st.sampled_from(["object", "json", "dict"])),
                            "keys": draw(st.sampled_from(["default", "custom", "callable"])),
                            "lazy": draw(st.sampled_from([False, False, False, True])),
                            "partition_start": draw(st.sampled_from([0, 0, 3]))}
        else:
            case["opts"] = {"what": draw(st.sampled_from(["array", "array", "record"])), "protocol": draw(st.sampled_from([2, 4, 5]))}
        return case
    if route == "arrow":
        return {"route": route, "desc": draw(_layout_case(CFG_ARROW)),
                "opts": {"list_to32": draw(st.booleans()), "string_to32": draw(st.booleans()), "bytestring_to32": draw(st.booleans()),
                         "allow_tensor": draw(st.sampled_from([False, False, True])),
                         # the array as ak.from_buffers(..., lazy=True) gives it back (record fields are VirtualArrays): added
                         # after the seeded change C16-b - nullability of struct fields taken from the node class - was missed
                         "lazy": draw(st.sampled_from([False, False, False, True]))}}
    if route == "to_numpy":
        c = draw(_rect_case())
        c["route"] = route
        return c
    if route == "from_numpy":
        return {"route": route, "spec": draw(_numpy_spec())}
    # partitioned: one array cut into 1..3 partitions (range slices of one layout, so that all partitions have the
    # same Form, which to_buffers requires), empty partitions included
    desc = draw(_layout_case(CFG))
    _, vals = M.decode(desc)
    k = draw(st.integers(1, 3))
    cuts = sorted(draw(st.integers(0, len(vals))) for _ in range(k - 1))
    return {"route": route, "desc": desc, "cuts": cuts, "opts": {"via": draw(st.sampled_from(["buffers", "pickle"]))}}


def strategy(tier):
    return strategy_()


def case_label(case):
    return case["route"]


# ------------------------------------------------------------------------------------------------ helpers
def _tuples_to_dicts(v):
    if isinstance(v, tuple):
        return {str(i): _tuples_to_dicts(x) for i, x in enumerate(v)}
    if isinstance(v, list):
        return [_tuples_to_dicts(x) for x in v]
    if isinstance(v, dict):
        return {k: _tuples_to_dicts(x) for k, x in v.items()}
    return v


def _optskel(T, top=True):
    """option structure of a type, with everything Arrow does not promise to keep removed: the top-level option, list
    regularity, names; unions and unknown are opaque (their option-ness is not distinguishable in Arrow)"""
    opt = False
    while T[0] == "option":
        opt = True
        T = T[1]
    k = T[0]
    if k in ("union", "unknown"):
        return "*"
    if k in ("list", "regular"):
        inner = ["L", _optskel(T[1], False)]
    elif k == "record":
        inner = ["R", sorted((str(i) if T[2] else n, _optskel(t, False)) for i, (n, t) in enumerate(T[1]))]
    else:
        inner = "x"
    return inner if (top or not opt) else ["?", inner]


def _feats(descs):
    f = set()
    for d in descs:
        f |= gen.features(d)
    return f


INTERESTING = {"offsets0!=0", "listarray_out_of_order", "width32", "ByteMaskedArray", "BitMaskedArray", "UnmaskedArray", "numpy_nd", "numpy_noncontiguous",
               "unreachable_suffix", "RecordArray", "UnionArray8_64", "UnionArray8_32", "UnionArray8_U32", "IndexedOptionArray32", "IndexedOptionArray64", "regular_size0"}


def _nontrivial(descs, V):
    return bool(V) and (any(gen.noncanonical(d) for d in descs) or len(descs) > 1)


def _expect_same(what, T, V, got_T, got_V, typestr_a=None, typestr_b=None):
    if not M.same_value(got_V, V):
        raise Violation("value:" + what, "%s does not reproduce the array's value" % what, expected=M.jsonable(V), observed=M.jsonable(got_V))
    if typestr_a is not None and typestr_a != typestr_b:
        raise Violation("type:" + what, "%s changes the type" % what, expected=typestr_a, observed=typestr_b)


# ------------------------------------------------------------------------------------------------ routes
def _have_virtual():
    try:
        import akshim.virtual  # noqa: F401
        return True
    except ImportError:
        return False


def _route_buffers(case):
    A = P.ak()
    o = dict(case["opts"])
    if o["lazy"] and not _have_virtual():
        o["lazy"] = False      # VirtualArray / ArrayCache are not in this build of the emulation: eager instead
    buffers = []
    a = P.harray(case["desc"], buffers)
    snaps = P.snapshot(buffers)
    T, V = M.decode(case["desc"])
    kw = {}
    if o["keys"] == "custom":
        kw = {"form_key": "n{id}", "key_format": "{form_key}/{attribute}/p{partition}"}
    elif o["keys"] == "callable":
        kw = {"form_key": (lambda **k: "k" + k["id"]), "key_format": (lambda **k: "%s:%s:%s" % (k["partition"], k["form_key"], k["attribute"]))}
    if o["partition_start"]:
        kw["partition_start"] = o["partition_start"]
    kind, res = P.outcome(lambda: A.to_buffers(a, **kw))
    P.check_purity(buffers, snaps, "to_buffers")
    if kind != "ok":
        raise Violation("refused:to_buffers", "ak.to_buffers raised %s: %s" % (kind, str(res)[:300]))
    form, length, container = res
    if length != len(V):
        raise Violation("value:to_buffers", "to_buffers reports length %r for an array of length %d" % (length, len(V)))
    if o["container"] == "bytes":
        container = {k: np.ascontiguousarray(v).tobytes() for k, v in container.items()}
    elif o["container"] == "bytearray":
        container = {k: bytearray(np.ascontiguousarray(v).tobytes()) for k, v in container.items()}
    if o["form"] == "json":
        form = form.tojson()
    elif o["form"] == "dict":
        import json
        form = json.loads(form.tojson())
    fkw = {}
    if "key_format" in kw:
        fkw["key_format"] = kw["key_format"]
    if o["partition_start"]:
        fkw["partition_start"] = o["partition_start"]
    if o["lazy"]:
        fkw["lazy"] = True
    kind, b = P.outcome(lambda: A.from_buffers(form, length, container, **fkw))
    if kind != "ok":
        raise Violation("refused:from_buffers", "ak.from_buffers raised %s on what ak.to_buffers wrote: %s" % (kind, str(b)[:300]))
    kind, tv = P.outcome(lambda: P.read(A.materialized(b) if o["lazy"] else b, "from_buffers"))
    if kind != "ok":
        raise Violation("refused:from_buffers", "reading the result of ak.from_buffers raised %s: %s" % (kind, str(tv)[:300]))
    _expect_same("buffers", T, V, tv[0], tv[1], str(A.type(a)), str(A.type(b)))
    return [case["desc"]], V, ["container:" + o["container"], "form:" + o["form"], "keys:" + o["keys"]] + (["lazy"] if o["lazy"] else [])


def _route_pickle(case):
    A = P.ak()
    o = case["opts"]
    buffers = []
    a = P.harray(case["desc"], buffers)
    snaps = P.snapshot(buffers)
    T, V = M.decode(case["desc"])
    obj, exp, tags = a, V, ["pickle:array"]
    if o["what"] == "record" and M.strip_option(T)[0] == "record" and len(V) > 0 and V[-1] is not None and T[0] != "option":
        kind, rec = P.outcome(lambda: a[len(V) - 1])
        if kind == "ok" and isinstance(rec, A.Record):
            obj, exp, tags = rec, V[-1], ["pickle:record"]
    kind, b = P.outcome(lambda: pickle.loads(pickle.dumps(obj, protocol=o["protocol"])))
    P.check_purity(buffers, snaps, "pickle")
    if kind != "ok":
        raise Violation("refused:pickle", "pickling raised %s: %s" % (kind, str(b)[:300]))
    if isinstance(b, A.Array) != isinstance(obj, A.Array) or isinstance(b, A.Record) != isinstance(obj, A.Record):
        raise Violation("type:pickle", "unpickled object is a %s, not a %s" % (type(b).__name__, type(obj).__name__))
    gT, gV = P.read(b, "pickle")
    _expect_same("pickle", T, exp, gT, gV, str(A.type(obj)), str(A.type(b)))
    return [case["desc"]], exp, tags


def _route_partitioned(case):
    A = P.ak()
    if not _have_virtual():
        return None, "partitioned arrays are not available in this build of the emulation", None
    buffers = []
    whole = P.harray(case["desc"], buffers).layout
    snaps = P.snapshot(buffers)
    _, V = M.decode(case["desc"])
    bounds = [0] + list(case["cuts"]) + [len(V)]
    lens = [hi - lo for lo, hi in zip(bounds[:-1], bounds[1:])]
    kind, lays = P.outcome(lambda: [whole[lo:hi] for lo, hi in zip(bounds[:-1], bounds[1:])])
    if kind != "ok":
        raise Violation("refused:partitioned:slice", "range-slicing a valid array raised %s: %s" % (kind, str(lays)[:300]))
    kind, a = P.outcome(lambda: A.Array(A.partition.IrregularlyPartitionedArray(lays)))
    if kind != "ok":
        raise HarnessError("cannot build a partitioned array: %s" % (a,))
    # the Python-level class drops empty partitions on construction (documented normalisation): the partitioning to be
    # reproduced is the one the array actually has
    lens = [len(p) for p in a.layout.partitions]
    if sum(lens) != len(V):
        raise Violation("partitioning:construct", "partitioned array of total length %d built from slices of total length %d" % (sum(lens), len(V)))
    if case["opts"]["via"] == "pickle":
        kind, b = P.outcome(lambda: pickle.loads(pickle.dumps(a)))
    else:
        kind, b = P.outcome(lambda: A.from_buffers(*A.to_buffers(a)))
    P.check_purity(buffers, snaps, "partitioned")
    if kind != "ok":
        msg = str(b)
        raise Violation("refused:partitioned:" + case["opts"]["via"], "%s of a partitioned array raised %s: %s" % (
            case["opts"]["via"], kind, (msg[:120] + " ... " + msg[msg.index("differs from the first Form"):][:60]) if "differs from the first Form" in msg else msg[:300]))
    bl = b.layout
    if not isinstance(bl, A.partition.PartitionedArray):
        if len(lens) > 1:
            raise Violation("partitioning:" + case["opts"]["via"], "a partitioned array with %d partitions came back unpartitioned" % len(lens))
        got_lens = [len(bl)]
    else:
        got_lens = [len(p) for p in bl.partitions]
    if got_lens != lens:
        raise Violation("partitioning:" + case["opts"]["via"], "partition lengths changed", expected=lens, observed=got_lens)
    gT, gV = P.read(b, "partitioned")
    if not M.same_value(gV, V):
        raise Violation("value:partitioned:" + case["opts"]["via"], "value changed", expected=M.jsonable(V), observed=M.jsonable(gV))
    if str(A.type(a)) != str(A.type(b)):
        raise Violation("type:partitioned", "type changed", expected=str(A.type(a)), observed=str(A.type(b)))
    return [case["desc"]] * len(lays), V, ["partitions:%d" % len(lays), "via:" + case["opts"]["via"]] + (["empty_slice_dropped"] if len(lens) < len(lays) else [])


def _all_missing_over_empty(d):
    """an option node whose content has length 0"""
    def length(n):
        c = n["class"]
        if c == "NumpyArray":
            return n["shape"][0]
        if c == "EmptyArray":
            return 0
        if c.startswith("ListOffsetArray"):
            return len(n["offsets"]) - 1
        if c.startswith("ListArray"):
            return len(n["starts"])
        if c == "RegularArray":
            return n["zeros_length"] if n["size"] == 0 else length(n["content"]) // n["size"]
        if c.startswith("Indexed"):
            return len(n["index"])
        if c == "ByteMaskedArray":
            return len(n["mask"])
        if c == "BitMaskedArray":
            return n["length"]
        if c == "UnmaskedArray":
            return length(n["content"])
        if c == "RecordArray":
            return n["length"] if n.get("length") is not None else min(length(x) for x in n["contents"])
        if c.startswith("UnionArray"):
            return len(n["tags"])
        raise HarnessError("length of " + c)

    def walk(n, masked=False):
        """masked: to_arrow carries an option node's mask down to this node (through unions, records, indexed nodes; a list starts afresh)"""
        c = n["class"]
        if c in ("IndexedOptionArray32", "IndexedOptionArray64", "ByteMaskedArray", "BitMaskedArray") and length(n["content"]) == 0:
            return True
        # a non-option IndexedArray over zero-length content below an option takes the same route (pyarrow.array([None] * n).cast(type))
        if masked and c in ("IndexedArray32", "IndexedArrayU32", "IndexedArray64") and length(n["content"]) == 0:
            return True
        below = (masked or c in ("IndexedOptionArray32", "IndexedOptionArray64", "ByteMaskedArray", "BitMaskedArray")) and not (
            c.startswith(("ListArray", "ListOffsetArray")) or c == "RegularArray")
        if "content" in n and walk(n["content"], below):
            return True
        return any(walk(x, below) for x in n.get("contents", []))
    return walk(d)


def _route_arrow(case):
    A = P.ak()
    o = case["opts"]
    buffers = []
    a = P.harray(case["desc"], buffers)
    snaps = P.snapshot(buffers)
    T, V = M.decode(case["desc"])
    if _all_missing_over_empty(case["desc"]):
        return None, "an option node over zero-length content goes through pyarrow's null -> T cast, whose support and buffer layout depend on the pyarrow version", None
    if o.get("lazy") and _have_virtual():
        kind, a2 = P.outcome(lambda: A.from_buffers(*A.to_buffers(a), lazy=True))
        if kind != "ok":
            raise Violation("refused:from_buffers", "ak.from_buffers(lazy=True) raised %s on what ak.to_buffers wrote: %s" % (kind, str(a2)[:300]))
        a = a2
    kind, arr = P.outcome(lambda: A.to_arrow(a, list_to32=o["list_to32"], string_to32=o["string_to32"], bytestring_to32=o["bytestring_to32"],
                                             allow_tensor=o["allow_tensor"]))
    P.check_purity(buffers, snaps, "to_arrow")
    if kind == "ArrowNotImplementedError" and "Unsupported cast" in str(arr) and "from null" in str(arr):
        return None, "an option node over zero-length content goes through pyarrow's null -> T cast, whose support and buffer layout depend on the pyarrow version", None
    if kind != "ok":
        raise Violation("refused:to_arrow", "ak.to_arrow raised %s: %s" % (kind, str(arr)[:300]))
    import pyarrow
    tags = ["arrow:" + ",".join(k for k in sorted(o) if o[k])] + (["arrow_of_lazy"] if o.get("lazy") else [])
    expect = _tuples_to_dicts(V)
    if isinstance(arr, pyarrow.Tensor):
        # documented: allow_tensor converts regular-length lists to a Tensor, which offers no to_pylist and is not an Arrow array
        got = arr.to_numpy().tolist()
        if not M.same_value(got, V):
            raise Violation("value:to_arrow:tensor", "the Tensor's values differ from the array's", expected=M.jsonable(V), observed=M.jsonable(got))
        return [case["desc"]], V, tags + ["tensor"]
    kind, pl = P.outcome(lambda: arr.to_pylist())
    if kind == "ok":
        if not M.same_value(P.pyvalue(pl), expect):
            raise Violation("value:to_pylist", "pyarrow's to_pylist of ak.to_arrow(a) differs from a's value", expected=M.jsonable(expect), observed=M.jsonable(P.pyvalue(pl)))
        tags.append("pylist_agreed")
    else:
        tags.append("pylist_unavailable")
    try:
        arr.validate(full=True)
    except Exception:  # noqa: B902  -- Arrow's own validity rules are not part of the property: census only
        tags.append("pyarrow_validate_rejects")
    kind, b = P.outcome(lambda: A.from_arrow(arr))
    if kind != "ok":
        raise Violation("refused:from_arrow", "ak.from_arrow raised %s on what ak.to_arrow returned: %s" % (kind, str(b)[:300]))
    gT, gV = P.read(b, "from_arrow")
    if not M.same_value(_tuples_to_dicts(gV), expect):
        raise Violation("value:from_arrow", "from_arrow(to_arrow(a)) differs from a", expected=M.jsonable(expect), observed=M.jsonable(_tuples_to_dicts(gV)))
    if _optskel(T) != _optskel(gT):
        raise Violation("optionness:from_arrow", "option-ness below the top level changed", expected=M.typestr(T) if hasattr(M, "typestr") else repr(T),
                        observed=M.typestr(gT) if hasattr(M, "typestr") else repr(gT))
    return [case["desc"]], V, tags


def _route_to_numpy(case):
    A = P.ak()
    buffers = []
    a = P.harray(case["desc"], buffers)
    snaps = P.snapshot(buffers)
    T, V = M.decode(case["desc"])
    kind, x = P.outcome(lambda: A.to_numpy(a))
    P.check_purity(buffers, snaps, "to_numpy")
    if kind != "ok":
        raise Violation("refused:to_numpy", "ak.to_numpy raised %s on rectilinear data: %s" % (kind, str(x)[:300]))
    got = x.tolist()
    shape = case["shape"]
    # an empty outer dimension hides the inner ones in a nested-list value: compare shapes separately
    if not M.same_value(got, V) and not (0 in shape and np.size(x) == 0):
        raise Violation("value:to_numpy", "to_numpy(a).tolist() differs from a's value", expected=M.jsonable(V), observed=M.jsonable(got))
    if x.dtype != np.dtype(case["dtype"]):
        raise Violation("dtype:to_numpy", "to_numpy changed the dtype", expected=case["dtype"], observed=str(x.dtype))
    for rg in (False, True):
        kind, b = P.outcome(lambda: A.from_numpy(x, regulararray=rg))
        if kind != "ok":
            raise Violation("refused:from_numpy", "ak.from_numpy raised %s on the output of to_numpy: %s" % (kind, str(b)[:300]))
        gT, gV = P.read(b, "from_numpy")
        if not M.same_value(gV, got):
            raise Violation("value:from_numpy", "from_numpy(to_numpy(a)) differs from a", expected=M.jsonable(got), observed=M.jsonable(gV))
    return [case["desc"]], V, ["to_numpy:masked" if isinstance(x, np.ma.MaskedArray) else "to_numpy:plain"]


def _route_from_numpy(case):
    A = P.ak()
    s = case["spec"]
    dt = np.dtype(s["dtype"])
    if s["dtype"].startswith("complex"):
        flat = np.array([complex(r, i) for r, i in s["flat"]], dtype=dt)
    else:
        flat = np.array(s["flat"], dtype=dt)
    x = flat.reshape(s["shape"], order=s["order"]) if flat.size else np.zeros(s["shape"], dt)
    if s["step"] != 1 and x.shape[0] > 0:
        big = np.repeat(x, 2, axis=0) if s["step"] == 2 else x[::-1].copy()
        x = big[::2] if s["step"] == 2 else big[::-1]
    if s["mask"] is not None:
        x = np.ma.MaskedArray(x, np.array(s["mask"], dtype=bool).reshape(x.shape) if x.size else np.zeros(x.shape, bool))
    before = np.ma.getdata(x).tobytes()
    expect = x.tolist()
    kind, b = P.outcome(lambda: A.from_numpy(x, regulararray=s["regulararray"]))
    if kind != "ok":
        raise Violation("refused:from_numpy", "ak.from_numpy raised %s: %s" % (kind, str(b)[:300]))
    if np.ma.getdata(x).tobytes() != before:
        raise Violation("purity:from_numpy", "from_numpy modified its input", clause="C12-purity")
    gT, gV = P.read(b, "from_numpy")
    if not M.same_value(gV, expect) and not (0 in s["shape"]):
        raise Violation("value:from_numpy", "from_numpy(x) differs from x.tolist()", expected=M.jsonable(expect), observed=M.jsonable(gV))
    kind, y = P.outcome(lambda: A.to_numpy(b))
    if kind != "ok":
        raise Violation("refused:to_numpy", "ak.to_numpy raised %s on the output of from_numpy: %s" % (kind, str(y)[:300]))
    if y.shape != x.shape or y.dtype != x.dtype:
        raise Violation("shape:to_numpy", "to_numpy(from_numpy(x)) has shape %r dtype %s, x has %r %s" % (y.shape, y.dtype, x.shape, x.dtype))
    if not M.same_value(y.tolist(), expect):
        raise Violation("value:to_numpy", "to_numpy(from_numpy(x)) differs from x", expected=M.jsonable(expect), observed=M.jsonable(y.tolist()))
    tags = ["from_numpy:" + s["dtype"], "regulararray:%s" % s["regulararray"]] + (["masked"] if s["mask"] is not None else []) + (["strided"] if s["step"] != 1 else [])
    return [], expect, tags


ROUTES = {"buffers": _route_buffers, "pickle": _route_pickle, "partitioned": _route_partitioned, "arrow": _route_arrow,
          "to_numpy": _route_to_numpy, "from_numpy": _route_from_numpy}


def run_case(case):
    descs, V, tags = ROUTES[case["route"]](case)
    if descs is None:
        return {"discarded": V}
    feats = _feats(descs)
    if case["route"] == "from_numpy":
        nt = bool(V) and (case["spec"]["mask"] is not None or case["spec"]["step"] != 1 or len(case["spec"]["shape"]) > 1)
    else:
        nt = _nontrivial(descs, V)
    return {"tags": ["route:" + case["route"]] + tags + sorted(feats & INTERESTING), "nontrivial": bool(nt), "sample_class": case["route"]}


# ------------------------------------------------------------------------------------------------ known findings
KNOWN = dict(K.PREDICATES)


def _known_partitioned_indexed_forms(case, vio):
    return (case.get("route") == "partitioned" and vio.get("bucket", "").startswith("refused:partitioned")
            and "differs from the first Form" in vio.get("message", "") + str(vio.get("observed", ""))
            and K.any_node(case["desc"], lambda n: n["class"] in ("IndexedArray32", "IndexedArrayU32", "IndexedArray64")))


KNOWN["to_buffers_partitioned_indexed_forms"] = _known_partitioned_indexed_forms

