"""C12 - operations never crash, hang, touch foreign memory, or modify their inputs (tier L, mostly under ASan+UBSan).

Three parts, selected by case["part"]:
  corner   valid layout (generator biased to empties / size-0 / size-1 / n-d NumpyArray) x the whole operation catalogue
           with arguments at the statement's corners; oracle: returns or raises ValueError/RuntimeError (std::bad_alloc
           only for an explicitly oversized request), input bytes unchanged, input value unchanged when re-read.
  invalid  arbitrary, possibly invalid description x only the entry points the statement lists (validity check,
           printing, type/form, conversions); oracle: returns or raises an ordinary exception - the sanitizer build
           is the witness for out-of-bounds reads (every buffer is an exact-size allocation).
  history  a program over a pool of arrays: derive / derive again from the same input / drop (inputs before results
           and vice versa) / re-read; every survivor must still equal the value recorded when it was created, also
           after every buffer the library reported released has been overwritten and freed.
  python   (checks/c12p.py, tier P) a valid layout wrapped in ak.Array x the Python-level operations (ak.num, flatten, reducers, sort,
           pad_none, combinations, ufuncs, concatenate, zip, slices, to_list/to_json, copy, to_buffers, ...) on the akshim emulation of
           awkward._ext: the call returns or raises a Python exception, every operand buffer is byte-identical afterwards, the
           operand reads back unchanged, and the result can be walked.
A crash, sanitizer report or watchdog timeout is attributed to the case by the runner (FORK_EACH).
"""
import ctypes
import gc
import json
import os

import numpy as np
from hypothesis import strategies as st

from akgen import gen, invalidate as inv
from akmodel import core as M
from akshim import core
from akshim import describe as D
from akshim import layout as L
from checks import ops, known as K
from checks import c12p
from vlib.common import Violation, HarnessError

ID = "C12"
MANIFEST = {
    "technique": "property-based testing / fuzzing (Hypothesis) of the C++ layer under AddressSanitizer+UBSan with per-case process isolation and a per-case watchdog: corner-biased operation campaign, invalid-layout campaign over the check/print/convert entry points, and generated operation histories with buffer scribbling after release",
    "level_text": "Generated-input exploration in four parts, every case in its own forked process (a signal, sanitizer report or watchdog timeout is attributed to the case; a timeout is re-run once with 10x the budget before it counts as a hang). (A) valid layouts biased to zero-length arrays and buffers, size-0/size-1 regular lists and n-d NumpyArrays (also as slices array[a:b] of the built layout, so that Index offsets and byte offsets are not 0) x the whole operation catalogue incl. merge / mergemany / merge_as_union / setitem_field / getitem_field with a second generated operand or the first one again, with arguments at the corners (n > size, target 0 / negative / 2**61..2**63-1, axes at and beyond the limits, empty carry, empty/overshooting ranges, combination counts up to and beyond what fits in memory or in int64 under RLIMIT_AS): every call must return or raise ValueError/RuntimeError (std::bad_alloc only for explicitly oversized requests), leave every input buffer byte-identical and the input's value unchanged when re-read; results are printed and converted too. (B) arbitrary, possibly invalid descriptions (one documented rule broken, one integer perturbed, or bold random integers / wrong lengths / truncated contents) x validityerror, tostring, type, form, tojson, iteration (to_list), and the conversions: each must return or raise an ordinary exception; out-of-bounds reads are witnessed by ASan on exact-size buffers. (C) histories: programs of derive / drop / re-read steps over arrays built from malloc'ed buffers owned by the harness and from library-owned copies; every survivor must keep the value recorded at creation after its inputs were dropped, other results were derived, and every buffer whose release the bridge reported was overwritten and freed. (D) tier P, purity: valid layouts wrapped in ak.Array x ~35 Python-level operations (ak.num/flatten/reducers/sort/argsort/pad_none/combinations/cartesian/local_index/is_none/mask/where/concatenate/zip/with_field/values_astype/firsts/singletons/copy/to_buffers+from_buffers/to_list/to_json/str, ufuncs, slices) run by the unmodified src/awkward on the _ext emulation: returns or raises a Python exception, operand buffers byte-identical, operand value unchanged, result walkable. Held on everything generated outside the recorded known findings (conversions of invalid layouts that trust list bounds / record lengths / union indices; rpad count overflow).",
    "level_note": "Crash / memory / lifetime clauses at the C++ level (src/libawkward + src/cpu-kernels through the /verif bridge), purity also at the Python level on the emulation of awkward._ext; the pybind11 layer cannot be built here, so Python-level reference counting of buffers is modelled by the bridge's release tokens. Trusted: the bridge and akshim, akmodel.decode as the reader of values. Oversized/overflowing requests run only in the plain flavour (ASan aborts on a failing operator new), so an overflowing count that yields a small allocation is seen as a crash or wrong value, not as an ASan report. Content::carry is called with in-range positions only (internal building block). Signed overflow of reducers on extreme values and NaN->int casts are not generated. Not exercised: ArrayBuilder, from_json, VirtualArray and partitions as operands (other properties); the 'fails to return' clause only through the watchdog (no generated case on the unchanged tree came near it; a seeded non-terminating kernel loop is caught); the libFuzzer target fuzz_layout of the design was not built. UBSan reports of the kind 'non-zero offset applied to a null pointer' (zero-byte buffers are null pointers in libawkward and are never dereferenced) are tallied, not reported.",
}
RULE = ("case = (valid description, operation + corner-biased arguments) | (possibly invalid description, one check/print/convert entry point) | "
        "(1-2 descriptions + a program of <= 30 derive/drop/read steps) | (valid description, Python-level operation); non-trivial = the case hits one of the statement's corners "
        "(zero-length array or buffer, regular size 0/1, n > size, target 0, axis at/beyond the limits, empty carry, empty/overshooting range, "
        "big or oversized n or target) / the description really breaks a rule below or at the converted node / a result is read after one of its "
        "inputs was dropped / the Python-level call returned on an operand with at least one non-empty buffer; distinct by hash of the case")
ASSUMPTIONS = ["std::bad_alloc (MemoryError) is accepted only when the request is explicitly oversized (combinations whose count cannot be allocated; rpad targets that are negative or >= 2**40; invalid layouts holding integers >= 2**24)",
               "oversized and int64-overflowing requests are executed in the plain flavour only, under RLIMIT_AS",
               "a constructor refusing an invalid description (std::invalid_argument) is an ordinary exception and is tallied",
               "Content::carry (internal) is only called with positions inside the array",
               "until the coordinator applies proposed_fixes 03 and 04 the check is run against a scratch copy of /repo with them applied"]
PLAN = {
    "quick": [{"flavour": "san", "cases": 14000}, {"flavour": "plain", "cases": 8000}],
    "thorough": [{"flavour": "san", "cases": 170000}, {"flavour": "plain", "cases": 80000}],
}
if os.environ.get("VERIF_C12_SCALE"):     # development aid: shrink the plan
    for _p in PLAN["quick"]:
        _p["cases"] = max(16, int(_p["cases"] * float(os.environ["VERIF_C12_SCALE"])))
WALL_CAP = {"quick": 900, "thorough": 3300}
FORK_EACH = True
CASE_TIMEOUT = 20          # per-case watchdog (seconds); typical cases take milliseconds
HANG_RETRY_FACTOR = 10     # a case exceeding the watchdog is re-run once with 10x the budget before it is reported as a hang
EXPLANATION = "parts: corner ~46%, invalid ~46.5%, python (tier P purity) ~6%, history ~1.5% of the cases (300+ histories of <= 30 steps in the quick tier)"

FLAVOUR = os.environ.get("VERIF_FLAVOUR", "plain")
TRACE = bool(os.environ.get("VERIF_C12_TRACE"))
AS_LIMIT = 6 << 30            # RLIMIT_AS of plain workers
OVERSIZED_BYTES = 64 << 30    # a single allocation of this size cannot succeed under AS_LIMIT
MODERATE_COUNT = 300000       # combinations up to this many tuples are simply executed
HUGE_INT = 1 << 24            # invalid layouts holding integers this large may legitimately run out of memory

CFG = gen.Cfg(max_depth=3, leaf_dtypes=("int64", "float64", "bool", "uint8", "int32"), max_len=4, max_list=3)
CFG_BIG = gen.Cfg(max_depth=1, leaf_dtypes=("int64",), strided=False)

LIST_ENTRIES = ["toListOffsetArray64", "toListOffsetArray64_nozero", "toRegularArray", "compact_offsets64"]
COMMON_ENTRIES = ["validityerror", "tostring", "typestr", "form_json", "tojson", "to_list", "deep_copy", "getitem_nothing", "simplify"]


# ====================================================================== entry points (check / print / convert)
def entries_for(cls):
    out = list(COMMON_ENTRIES)
    if cls.startswith(("ListOffsetArray", "ListArray")) or cls == "RegularArray":
        out += LIST_ENTRIES
    if cls == "NumpyArray":
        out += ["toRegularArray", "contiguous"]
    if cls.startswith("Indexed"):
        out += ["project", "bytemask"]
    if cls in ("ByteMaskedArray", "BitMaskedArray", "UnmaskedArray"):
        out += ["project", "bytemask", "toIndexedOptionArray64"]
    if cls in ("BitMaskedArray", "UnmaskedArray"):
        out += ["toByteMaskedArray"]
    if cls.startswith("UnionArray"):
        out += ["project0", "project1"]
    return out


def to_list(x):
    """re-statement of ak.to_list at the layout level: iteration = getitem_at_nowrap(i) for i < len"""
    if x is None or isinstance(x, (bool, int, float, complex, str, bytes, np.generic)):
        return x
    if isinstance(x, L.Record):
        fs = [to_list(f) for f in x.fields()]
        return tuple(fs) if x.istuple else dict(zip(x.keys(), fs))
    if isinstance(x, L.NumpyArray):
        if x.parameter("__array__") in ("char", "byte"):
            return np.asarray(x).tobytes()
        return np.asarray(x).tolist()
    if isinstance(x, L.Content):
        return [to_list(e) for e in x]
    raise HarnessError("to_list: unexpected %r" % (type(x),))


def apply_entry(layout, entry):
    """one of the entry points the statement lists for arbitrary arrays; array results are read back (tojson)"""
    if entry not in entries_for(type(layout).__name__):
        raise ValueError("harness: %s does not apply to %s" % (entry, type(layout).__name__))
    if entry == "validityerror":
        return layout.validityerror()
    if entry == "tostring":
        return repr(layout)
    if entry == "typestr":
        return core.result_str(core.call("typestr", [layout._h]))
    if entry == "form_json":
        return core.result_str(core.call("form_json", [layout._h], [0, 0]))
    if entry == "tojson":
        return layout.tojson()
    if entry == "to_list":
        return M.jsonable(to_list(layout))
    if entry == "deep_copy":
        return layout.deep_copy()
    if entry == "getitem_nothing":
        return layout.getitem_nothing()
    if entry == "simplify":
        return layout.simplify()
    if entry == "toListOffsetArray64":
        return layout.toListOffsetArray64(True)
    if entry == "toListOffsetArray64_nozero":
        return layout.toListOffsetArray64(False)
    if entry == "toRegularArray":
        return layout.toRegularArray()
    if entry == "compact_offsets64":
        return np.asarray(layout.compact_offsets64(True)).tolist()
    if entry == "contiguous":
        return layout.contiguous()
    if entry == "project":
        return layout.project()
    if entry in ("project0", "project1"):
        return layout.project(int(entry[-1]))
    if entry == "bytemask":
        return np.asarray(layout.bytemask()).tolist()
    if entry == "toIndexedOptionArray64":
        return layout.toIndexedOptionArray64()
    if entry == "toByteMaskedArray":
        return layout.toByteMaskedArray()
    raise HarnessError("unknown entry " + entry)


def apply(layout, spec):
    op = spec["op"]
    if op == "entry":
        return apply_entry(layout, spec["entry"])
    if op == "child":
        return child_of(layout, spec["i"])
    if op == "getitem_field":
        return layout[spec["key"]]
    return ops.apply_op(layout, spec)


def child_of(layout, i):
    """a sub-node of the layout, through the accessors of the binding (content / contents[i] / field(i))"""
    if isinstance(layout, L.RecordArray):
        n = layout.numfields
        if n == 0:
            raise ValueError("no fields")
        return layout.field(i % n)
    if hasattr(layout, "numcontents"):
        return layout.content(i % layout.numcontents)
    if hasattr(type(layout), "content"):
        return layout.content
    raise ValueError("leaf node has no child")


def read_result(res):
    """printing / conversion of whatever an operation returned: must not crash either (statement: 'on any array').
    returns a short tag"""
    if not isinstance(res, L.Content):
        return "scalar"
    kind, _ = ops.outcome(lambda: res.validityerror())
    _check_kind("read_result.validityerror", kind, _, False)
    kind, _ = ops.outcome(lambda: repr(res))
    _check_kind("read_result.tostring", kind, _, False)
    kind, msg = ops.outcome(lambda: res.tojson())
    _check_kind("read_result.tojson", kind, msg, False)
    return "result_tojson:" + kind


def _check_kind(what, kind, msg, oversized):
    if kind == "OtherNativeError":
        if oversized and ("bad_alloc" in msg or "bad_array_new_length" in msg):
            return
        raise Violation("exception:" + what, "%s raised a C++ exception that is neither invalid_argument nor runtime_error: %s" % (what, msg[:200]),
                        observed=msg[:300], clause="C12-exception")


# ====================================================================== part A: corner campaign
def comb_class(lengths, n, replacement):
    """re-statement of the sizing arithmetic of awkward_ListArray_combinations_length_64 with unbounded integers:
    ('moderate'|'between'|'oversized'|'overflow', total count)"""
    total = 0
    overflow = False
    for size in lengths:
        if replacement:
            size += n - 1
        thisn = n
        if thisn > size:
            c = 0
        elif thisn == size:
            c = 1
        else:
            if thisn * 2 > size:
                thisn = size - thisn
            c = size
            for j in range(2, thisn + 1):
                c *= size - j + 1
                if c >= 2 ** 63:
                    overflow = True
                c //= j
        total += c
    if overflow or total * 8 * max(n, 1) >= 2 ** 63:
        return "overflow", total
    if total <= MODERATE_COUNT:
        return "moderate", total
    if total * 8 >= OVERSIZED_BYTES:
        return "oversized", total
    return "between", total


def list_lengths_at(T, vals, axis):
    """lengths of the lists that combinations(axis) combines within (axis 0: the array itself); None if not computable"""
    mn, mx = M.minmax_depth(T)
    a = axis if axis >= 0 else mx + axis
    if a < 0 or a >= mx:
        return None
    if a == 0:
        return [len(vals)]
    out = []

    def visit(lvl, TT, v):
        if v is not None and lvl == a:
            out.append(len(v))
    from checks.modelcheck import _walk_lists
    _walk_lists(T, vals, 0, visit)
    return out


def all_list_lengths(T, vals):
    out = [len(vals)]

    def visit(lvl, TT, v):
        if v is not None:
            out.append(len(v))
    from checks.modelcheck import _walk_lists
    _walk_lists(T, vals, 0, visit)
    return out


def request_class(T, vals, spec):
    """'moderate' | 'between' | 'oversized' | 'overflow' for the memory a request explicitly asks for"""
    if spec["op"] == "combinations" and (spec["n"] >= 4 or max(all_list_lengths(T, vals)) > 40):
        lens = list_lengths_at(T, vals, spec["axis"])
        if lens is None:
            lens = all_list_lengths(T, vals)
        worst = "moderate"
        order = ["moderate", "between", "oversized", "overflow"]
        # the recursion may apply the formula at any level it passes through: classify by the worst level
        for group in (lens, all_list_lengths(T, vals)):
            c, _ = comb_class(group, spec["n"], spec["replacement"])
            if order.index(c) > order.index(worst):
                worst = c
        return worst
    if spec["op"] in ("rpad", "rpad_and_clip") and spec["target"] > 100000:
        return "oversized" if spec["target"] * 8 >= OVERSIZED_BYTES else "between"
    if spec["op"] == "rpad_and_clip" and spec["target"] < 0:
        # a request for a negative number of items: as an unsigned byte count it can never be allocated (std::bad_alloc -> MemoryError)
        return "oversized"
    return "moderate"


def rebias_regular(draw, T):
    """statement: 'special attention to size-0/size-1 regular lists' - rewrite some regular sizes to 0 or 1"""
    k = T[0]
    if k == "regular":
        size = draw(st.sampled_from([T[2], T[2], 0, 1]))
        return ["regular", rebias_regular(draw, T[1]), size]
    if k in ("list", "option"):
        return [k, rebias_regular(draw, T[1])]
    if k == "record":
        return ["record", [[nm, rebias_regular(draw, ft)] for nm, ft in T[1]], T[2], T[3]]
    if k == "union":
        return ["union", [rebias_regular(draw, t) for t in T[1]]]
    return T


@st.composite
def corner_array(draw, cfg=CFG):
    T = rebias_regular(draw, draw(gen.types(cfg)))
    n = draw(st.sampled_from([0, 0, 0, 1, 1, 2, 3, cfg.max_len]))
    vals = draw(gen.values(T, cfg, n=n))
    desc = draw(gen.encode(T, vals, cfg))
    return T, vals, desc


CORNER_FAMILIES = ["getitem_at", "getitem_range", "getitem", "getitem", "num", "flatten", "flatten", "localindex", "reduce", "reduce", "reduce", "reduce",
                   "sort", "sort", "argsort", "argsort", "rpad", "rpad", "rpad_and_clip", "rpad_and_clip",
                   "combinations", "combinations", "carry", "fillna", "numbers_to_type", "unique", "is_unique", "getitem_nothing", "entry", "entry", "child",
                   "simplify", "deep_copy", "tojson", "type", "form", "validity", "purelist",
                   "merge", "merge", "mergemany", "merge_as_union", "setitem_field", "getitem_field"]
TWO_OPERAND = ("merge", "mergemany", "merge_as_union", "setitem_field")


@st.composite
def corner_axis(draw, T):
    mn, mx = M.minmax_depth(T)
    return draw(st.sampled_from([mx - 1, -1, -mx, mx, -mx - 1, 0, mn - 1, -mn, mx + 1, 100, -100]))


@st.composite
def corner_range_bounds(draw, n):
    pick = draw(st.integers(0, 7))
    if pick == 0:
        k = draw(st.integers(-n - 1, n + 1))
        return k, k                                                  # empty
    if pick == 1:
        return n, n + draw(st.integers(0, 5))                        # starts at the end
    if pick == 2:
        return -n - 3, -n - 1                                        # entirely before the beginning
    if pick == 3:
        return draw(st.integers(0, n + 2)), draw(st.integers(-n - 2, 0))   # stop before start
    if pick == 4:
        return -100, 100                                             # overshoots on both sides
    if pick == 5:
        return None, draw(st.sampled_from([0, -n - 1, n + 7]))
    if pick == 6:
        return draw(st.sampled_from([n, n + 7, -n - 1])), None
    return 2 ** 62, -2 ** 62


@st.composite
def corner_op(draw, T, vals, cls):
    """catalogue operation with arguments biased to the statement's corners (half the time: the plain catalogue draw)"""
    n = len(vals)
    if draw(st.integers(0, 2)) == 0:
        return draw(ops.draw_op(T, vals, None))
    f = draw(st.sampled_from(CORNER_FAMILIES))
    if f == "getitem_at":
        return {"op": f, "i": draw(st.sampled_from([0, -1, n, -n - 1, n - 1, -n, 2 ** 62, -2 ** 62]))}
    if f == "getitem_range":
        a, b = draw(corner_range_bounds(n))
        return {"op": f, "start": a, "stop": b}
    if f == "getitem":
        k = draw(st.integers(1, 3))
        items = []
        seen = False
        for i in range(k):
            m = max(n, 1) if i == 0 else 3
            kind = draw(st.sampled_from(["range", "range", "at", "array", "ellipsis", "newaxis"]))
            if kind == "range":
                a, b = draw(corner_range_bounds(m))
                items.append({"k": "range", "start": a, "stop": b, "step": draw(st.sampled_from([None, 1, -1, 2, m + 1, -(m + 1), 2 ** 40]))})
            elif kind == "at":
                items.append({"k": "at", "i": draw(st.sampled_from([0, -1, m, -m - 1, m - 1, -m]))})
            elif kind == "array":
                cnt = draw(st.sampled_from([0, 0, 1, 3]))
                items.append({"k": "array", "data": [draw(st.sampled_from([0, -1, m - 1, -m, m, -m - 1])) for _ in range(cnt)]})
            elif kind == "ellipsis" and not seen:
                seen = True
                items.append({"k": "ellipsis"})
            else:
                items.append({"k": "newaxis"})
        return {"op": f, "items": items}
    if f in ("num", "flatten", "localindex"):
        return {"op": f, "axis": draw(corner_axis(T))}
    if f == "reduce":
        return {"op": f, "name": draw(st.sampled_from(ops.REDUCERS)), "axis": draw(corner_axis(T)), "mask": draw(st.booleans()), "keepdims": draw(st.booleans())}
    if f in ("sort", "argsort"):
        return {"op": f, "axis": draw(corner_axis(T)), "ascending": draw(st.booleans()), "stable": draw(st.booleans())}
    if f in ("rpad", "rpad_and_clip"):
        targets = [0, 0, 0, 1, 2, n, 7, 50, -1]
        if FLAVOUR == "plain":
            # counts that overflow the sizing formula length * sizeof(item) (2**61 * 8 == 2**64) or that cannot be allocated
            targets += [2 ** 61, 2 ** 61 + 1, 2 ** 62, 2 ** 63 - 1, 2 ** 40, -2 ** 63]
        return {"op": f, "target": draw(st.sampled_from(targets)), "axis": draw(corner_axis(T))}
    if f == "combinations":
        return {"op": f, "n": draw(st.sampled_from([0, -1, 1, 2, 3, 4, 5, 5, 6, 8])), "replacement": draw(st.booleans()), "axis": draw(corner_axis(T))}
    if f == "carry":
        cnt = draw(st.sampled_from([0, 0, 0, 1, 6])) if n > 0 else 0
        return {"op": f, "index": [draw(st.sampled_from([0, n - 1])) for _ in range(cnt)]}
    if f == "fillna":
        return {"op": f, "value": draw(st.sampled_from([0, 1, -1, 2.5]))}
    if f == "numbers_to_type":
        return {"op": f, "name": draw(st.sampled_from(["int64", "float64", "int32", "float32", "uint8", "bool", "complex128", "int8", "uint64"]))}
    if f in ("merge", "mergemany"):
        return {"op": f, "mergebool": draw(st.booleans()), "with": draw(st.sampled_from(["other", "other", "self"]))}
    if f in ("merge_as_union", "setitem_field"):
        return {"op": f, "with": draw(st.sampled_from(["other", "self"]))}
    if f == "getitem_field":
        return {"op": f, "key": draw(st.sampled_from(record_keys(T) + ["nokey", "0"]))}
    if f == "entry":
        return {"op": f, "entry": draw(st.sampled_from(entries_for(cls)))}
    if f == "child":
        return {"op": f, "i": draw(st.integers(0, 2))}
    return {"op": f}


def record_keys(T, out=None):
    out = [] if out is None else out
    if T[0] == "record":
        out += [nm for nm, _ in T[1]]
        for _, ft in T[1]:
            record_keys(ft, out)
    elif T[0] in ("list", "regular", "option"):
        record_keys(T[1], out)
    elif T[0] == "union":
        for t in T[1]:
            record_keys(t, out)
    return out


def apply2(lay, other, spec):
    """operations with a second operand (a second generated array, or the first one again: both operands then share buffers)"""
    op = spec["op"]
    if spec["with"] == "self" or other is None:
        other = lay
    if op == "merge":
        if lay.mergeable(other, spec["mergebool"]):
            return lay.merge(other)
        return lay.merge_as_union(other)
    if op == "mergemany":
        return lay.mergemany([other, lay])
    if op == "merge_as_union":
        return lay.merge_as_union(other)
    if op == "setitem_field":
        if not isinstance(lay, L.RecordArray):
            raise ValueError("harness: setitem_field applies to RecordArray")
        return lay.setitem_field("extra", other)
    raise HarnessError("unknown two-operand op " + op)


@st.composite
def bigcomb_case(draw):
    """combinations where the count formula grows: moderate (executed, n = 5..8 on lists of 10..20), and - plain flavour only -
    oversized (cannot be allocated) and overflowing (the formula leaves int64)"""
    kinds = ["moderate"] * 3 + (["oversized", "overflow"] if FLAVOUR == "plain" else [])
    kind = draw(st.sampled_from(kinds))
    if kind == "moderate":
        ln, n = draw(st.integers(10, 20)), draw(st.integers(5, 8))
    elif kind == "oversized":
        ln, n = draw(st.integers(44, 58)), draw(st.integers(14, 20))
    else:
        ln = draw(st.integers(62, 90))
        n = ln // 2 - draw(st.integers(0, 3))
    replacement = draw(st.booleans())
    shape = draw(st.sampled_from(["list", "list", "regular", "flat"]))
    nlists = 1 if shape == "flat" else draw(st.integers(1, 3))
    while kind == "moderate" and comb_class([ln] * nlists, n, replacement)[0] != "moderate":
        if replacement:
            replacement = False
        elif nlists > 1:
            nlists -= 1
        else:
            n -= 1
    row = [i % 7 for i in range(ln)]
    if shape == "flat":
        T, vals, axis = ["prim", "int64"], row, draw(st.sampled_from([0, -1]))
    elif shape == "regular":
        T, vals, axis = ["regular", ["prim", "int64"], ln], [list(row) for _ in range(nlists)], draw(st.sampled_from([1, -1]))
    else:
        short = draw(st.integers(0, 3))
        vals = [list(row) for _ in range(nlists)] + [row[:short]]
        T, axis = ["list", ["prim", "int64"]], draw(st.sampled_from([1, -1]))
    desc = draw(gen.encode(T, vals, CFG_BIG))
    return {"part": "corner", "desc": desc, "spec": {"op": "combinations", "n": n, "replacement": replacement, "axis": axis}}


@st.composite
def corner_case(draw):
    if draw(st.integers(0, 19)) == 0:
        return draw(bigcomb_case())
    T, vals, desc = draw(corner_array())
    # a third of the operands are slices array[a:b] of the built layout: Index offsets and NumpyArray byte offsets that are not 0
    pre = draw(st.sampled_from([None, None, None, None, [1, None], [0, -1], [1, -1]]))
    if pre is not None:
        vals = vals[pre[0]:pre[1]]
    case = {"part": "corner", "desc": desc, "spec": draw(corner_op(T, vals, desc["class"]))}
    if pre is not None:
        case["pre"] = pre
    if case["spec"]["op"] in TWO_OPERAND and case["spec"]["with"] == "other":
        # the second operand: the same value under another encoding, or an unrelated array
        if draw(st.booleans()):
            case["b"] = draw(gen.encode(T, vals, CFG))
        else:
            case["b"] = draw(corner_array())[2]
    return case


def buffer_lengths(d, out=None):
    out = [] if out is None else out
    for key in ("offsets", "starts", "stops", "index", "tags", "mask"):
        if key in d:
            out.append(len(d[key]))
    if d["class"] == "NumpyArray":
        size = 1
        for s in d["shape"]:
            size *= s
        out.append(size)
    if "content" in d:
        buffer_lengths(d["content"], out)
    for c in d.get("contents", []):
        buffer_lengths(c, out)
    return out


def regular_sizes(d, out=None):
    out = set() if out is None else out
    if d["class"] == "RegularArray":
        out.add(d["size"])
    if d["class"] == "NumpyArray":
        out.update(d["shape"][1:])
    if "content" in d:
        regular_sizes(d["content"], out)
    for c in d.get("contents", []):
        regular_sizes(c, out)
    return out


def _range_corners(a, b, n, out):
    if a is not None and b is not None:
        na = min(max(a + n if a < 0 else a, 0), n)
        nb = min(max(b + n if b < 0 else b, 0), n)
        if na >= nb:
            out.add("range_empty")
    if (a is not None and not -n <= a <= n) or (b is not None and not -n <= b <= n):
        out.add("range_overshooting")


def corners(desc, T, vals, spec, rclass):
    """the statement's corners this case hits (tags 'corner:<name>')"""
    out = set()
    n = len(vals)
    if n == 0:
        out.add("zero_length_array")
    if 0 in buffer_lengths(desc):
        out.add("zero_length_buffer")
    sizes = regular_sizes(desc)
    if 0 in sizes:
        out.add("regular_size0")
    if 1 in sizes:
        out.add("regular_size1")
    op = spec["op"]
    mn, mx = M.minmax_depth(T)
    ax = spec.get("axis")
    if ax is not None:
        if ax in (mx - 1, -mx, mn - 1, -mn):
            out.add("axis_at_limit")
        if ax >= mx or ax < -mx:
            out.add("axis_beyond_limit")
    if op == "combinations":
        lens = list_lengths_at(T, vals, spec["axis"])
        if lens and any(spec["n"] > ln for ln in lens):
            out.add("n_gt_size")
        if spec["n"] >= 5:
            out.add("big_n")
        if spec["n"] <= 0:
            out.add("n_not_positive")
        if rclass != "moderate":
            out.add("count_" + rclass)
    if op in ("rpad", "rpad_and_clip"):
        if spec["target"] == 0:
            out.add("target0")
        if spec["target"] < 0:
            out.add("target_negative")
        if spec["target"] >= 2 ** 40:
            out.add("target_overflowing" if spec["target"] >= 2 ** 61 else "target_oversized")
    if op == "carry" and not spec["index"]:
        out.add("carry_empty")
    if op == "getitem_range":
        _range_corners(spec["start"], spec["stop"], n, out)
    if op == "getitem_at" and spec["i"] in (n, -n - 1, n - 1, -n):
        out.add("at_boundary")
    if op == "getitem":
        for pos, it in enumerate(spec["items"]):
            if it["k"] == "range":
                _range_corners(it["start"], it["stop"], n if pos == 0 else 3, out)
            if it["k"] == "array" and not it["data"]:
                out.add("empty_index_array")
    return sorted(out)


def snapshot_value(lay):
    """(T, vals) of a layout re-read through the binding's accessors; None if it cannot be evaluated"""
    try:
        return M.decode(D.describe(lay))
    except M.Invalid:
        return None


def same_tv(a, b):
    if a is None or b is None:
        return a is None and b is None
    return a[0] == b[0] and M.same_value(a[1], b[1])


def run_corner(case):
    desc, spec = case["desc"], case["spec"]
    pre = case.get("pre")
    T, vals = M.decode(desc)
    from checks.modelcheck import region, oplabel
    svals = vals if pre is None else vals[pre[0]:pre[1]]
    label = _oplabel(spec) + "|" + region(T, svals, spec)
    rclass = request_class(T, svals, spec)
    if rclass == "between":
        return {"discarded": "request neither small nor certainly unallocatable (would only be slow)"}
    if rclass in ("oversized", "overflow") and FLAVOUR != "plain":
        return {"discarded": "oversized / overflowing request needs RLIMIT_AS (plain flavour only)"}
    if spec["op"] == "reduce" and ("'string'" in repr(T) or "'bytes'" in repr(T)):
        return {"discarded": "reducers are defined on numeric leaves, not on strings"}
    buffers = []
    lay = D.build(desc, buffers)
    snaps = [b.tobytes() for b in buffers]
    before = snapshot_value(lay)
    if before is None or not same_tv(before, (T, vals)):
        raise HarnessError("a freshly built layout does not read back as the description's value")
    other = before_b = None
    if "b" in case:
        other = D.build(case["b"], buffers)
        snaps = [b.tobytes() for b in buffers]
        before_b = snapshot_value(other)
        if before_b is None:
            raise HarnessError("a freshly built second operand cannot be read back")
    if pre is not None:
        lay = lay[pre[0]:pre[1]]
        before = snapshot_value(lay)
        if before is None or not same_tv(before, (T, vals[pre[0]:pre[1]])):
            # what a slice evaluates to is property C01's concern (e.g. the recorded zero_field_records finding), not this one's
            return {"discarded": "the slice used as operand does not read back as that slice of the value (C01's concern)"}
    kind, res = ops.outcome(lambda: apply2(lay, other, spec) if spec["op"] in TWO_OPERAND else apply(lay, spec))
    for b, s in zip(buffers, snaps):
        if b.tobytes() != s:
            raise Violation("purity:" + label, "an input buffer was modified by %s" % spec["op"], clause="C12-purity")
    _check_kind_label(label, kind, res, rclass != "moderate")
    tags = ["part:corner", "op:" + _oplabel(spec).split(":")[0], "outcome:" + kind]
    if kind == "ok":
        big = spec["op"] == "combinations" and spec["n"] >= 4
        if not big:
            try:
                tags.append(read_result(res))
            except Violation as v:
                v.bucket = v.bucket + ":" + label
                raise
        elif isinstance(res, L.Content):
            ops.outcome(lambda: res.validityerror())
            tags.append("result_len_only")
    after = snapshot_value(lay)
    if not same_tv(before, after):
        raise Violation("value_changed:" + label, "the input reads back differently after %s" % spec["op"],
                        expected=M.jsonable(before[1]), observed=M.jsonable(after[1]) if after else "unevaluable", clause="C12-purity")
    if other is not None and not same_tv(before_b, snapshot_value(other)):
        raise Violation("value_changed:" + label, "the second operand reads back differently after %s" % spec["op"],
                        expected=M.jsonable(before_b[1]), clause="C12-purity")
    for b, s in zip(buffers, snaps):
        if b.tobytes() != s:
            raise Violation("purity:" + label, "an input buffer was modified while reading the result of %s" % spec["op"], clause="C12-purity")
    cs = corners(desc, T, svals, spec, rclass)
    if pre is not None:
        tags.append("operand:slice_of_built_layout")
    if spec["op"] in TWO_OPERAND:
        tags.append("second_operand:" + ("generated" if other is not None else "the first again"))
    return {"tags": tags + ["corner:" + c for c in cs], "nontrivial": bool(cs), "sample_class": "corner:" + spec["op"]}


def _oplabel(spec):
    if spec["op"] == "reduce":
        return "reduce:" + spec["name"]
    if spec["op"] == "entry":
        return "entry:" + spec["entry"]
    return spec["op"]


def _check_kind_label(label, kind, msg, oversized):
    try:
        _check_kind(label, kind, msg if isinstance(msg, str) else "", oversized)
    except Violation as v:
        v.bucket = "exception:" + label
        raise


# ====================================================================== part B: invalid layouts
def family(cls):
    for w in ("U32", "32", "64"):
        if cls.endswith(w) and cls != "EmptyArray":
            return cls[: -len(w)].rstrip("_")
    return cls


INT_RANGE = {"8": (-128, 127), "U8": (0, 255), "32": (-2 ** 31, 2 ** 31 - 1), "U32": (0, 2 ** 32 - 1), "64": (-2 ** 63, 2 ** 63 - 1)}


def key_width(cls, key):
    if key == "tags":
        return "8"
    if key == "mask":
        return "U8" if cls == "BitMaskedArray" else "8"
    return D.width_of(cls)


@st.composite
def wild_int(draw, cls, key, n_content, big_ok):
    lo, hi = INT_RANGE[key_width(cls, key)]
    pool = [-1, -2, -5, 0, 1, 2, n_content - 1, n_content, n_content + 1, n_content + 3, 7, 100, 127, -128]
    if big_ok:
        pool += [lo, hi, hi - 1, lo + 1, 2 ** 31 - 1, -2 ** 31, 2 ** 31, 2 ** 40, 2 ** 62, -2 ** 62, 2 ** 24, 65536]
    else:
        pool += [1000, 65536, -1000]
    v = draw(st.sampled_from(pool))
    return max(lo, min(hi, v))


@st.composite
def bold(draw, desc, big_ok):
    """bolder than invalidate/perturb: 1-3 arbitrary edits (wild integers, wrong lengths, truncated contents, wrong scalars)"""
    import copy
    d = copy.deepcopy(desc)
    all_nodes = inv.nodes(d)
    edits = draw(st.integers(1, 3))
    rule, path = None, ()
    for _ in range(edits):
        p, n = draw(st.sampled_from(all_nodes))
        cls = n["class"]
        choices = []
        for key in ("offsets", "starts", "stops", "index", "tags", "mask"):
            if key in n:
                choices += [(key, "value"), (key, "values"), (key, "length")]
        if "content" in n or n.get("contents"):
            choices.append(("content", "truncate"))
        for key in ("length", "size", "zeros_length"):
            if isinstance(n.get(key), int):
                choices.append((key, "scalar"))
        if cls == "RecordArray" and n.get("length") is None:
            choices.append(("length", "scalar"))
        if cls in ("ByteMaskedArray", "BitMaskedArray"):
            choices.append(("valid_when", "flip"))
        if not choices:
            continue
        key, how = draw(st.sampled_from(choices))
        sub = n.get("content") or (n.get("contents") or [None])[0]
        try:
            nc = M.length_of(sub) if sub is not None else 0
        except (M.Invalid, ZeroDivisionError):
            nc = 0
        if how == "value" and n[key]:
            i = draw(st.integers(0, len(n[key]) - 1))
            n[key][i] = draw(wild_int(cls, key, nc, big_ok))
        elif how == "values":
            n[key] = [draw(wild_int(cls, key, nc, big_ok)) for _ in n[key]]
        elif how == "length" or how == "value":
            k = draw(st.sampled_from([-2, -1, 1, 2, -len(n[key])]))
            if k < 0:
                n[key] = n[key][:max(0, len(n[key]) + k)]
            else:
                n[key] = n[key] + [draw(wild_int(cls, key, nc, big_ok)) for _ in range(k)]
        elif how == "truncate":
            subs = [("content", None)] if "content" in n else [("contents", i) for i in range(len(n["contents"]))]
            sk, si = draw(st.sampled_from(subs))
            target = n[sk] if si is None else n[sk][si]
            new = truncated(draw, target)
            if si is None:
                n[sk] = new
            else:
                n[sk][si] = new
            all_nodes = inv.nodes(d)
        elif how == "scalar":
            # lengths stay small (printing 2**31 empty lists is slow, not wrong); only a list size may be enormous
            n[key] = draw(st.sampled_from([0, 1, -1, 2, 3, 8, 9, nc, nc + 1, 1000] + ([2 ** 31, 2 ** 62] if big_ok and key == "size" else [])))
        elif how == "flip":
            n["valid_when"] = not n["valid_when"]
        rule = "bold:%s:%s" % (key, how)
        path = p
    if rule is None:
        return None
    return {"desc": d, "rule": rule, "path": list(path)}


def truncated(draw, t):
    """a shorter stand-in for a content node"""
    how = draw(st.sampled_from(["empty_array", "zero_numpy", "shorten", "shorten"]))
    if how == "empty_array":
        return {"class": "EmptyArray"}
    if how == "zero_numpy":
        return {"class": "NumpyArray", "dtype": "int64", "shape": [0], "data": []}
    cls = t["class"]
    import copy
    t = copy.deepcopy(t)
    if cls == "NumpyArray" and len(t["shape"]) == 1 and t["shape"][0] > 0 and not t.get("phys"):
        k = draw(st.integers(0, t["shape"][0] - 1))
        t["shape"] = [k]
        t["data"] = t["data"][:k]
        return t
    for key in ("offsets", "starts", "index", "tags", "mask"):
        if key in t and len(t[key]) > 1:
            k = draw(st.integers(1, len(t[key]) - 1))
            t[key] = t[key][:k]
            if key == "starts":
                t["stops"] = t["stops"][:k]
            if key == "tags":
                t["index"] = t["index"][:k]
            if cls == "BitMaskedArray":
                t["length"] = min(t["length"], 8 * k)
            return t
    if cls == "RecordArray":
        t["length"] = 0
        return t
    return {"class": "EmptyArray"}


@st.composite
def invalid_case(draw):
    T = rebias_regular(draw, draw(gen.types(CFG)))
    vals = draw(gen.values(T, CFG, n=draw(st.sampled_from([0, 1, 2, 3, 3, CFG.max_len]))))
    desc = draw(gen.encode(T, vals, CFG))
    how = draw(st.sampled_from(["invalidate", "invalidate", "perturb", "bold", "bold", "bold", "valid"]))
    r = None
    if how == "invalidate":
        r = draw(inv.invalidate(desc))
        if r is not None:
            r = {"desc": r["desc"], "rule": r["rule"], "depth": r["depth"]}
    elif how == "perturb":
        r = draw(inv.perturb(desc))
    elif how == "bold":
        r = draw(bold(desc, FLAVOUR == "plain"))
        if r is not None:
            r["depth"] = len(r["path"])
    if r is None:
        r = {"desc": desc, "rule": "none", "depth": 0}
    d = r["desc"]
    # convert at the root, or at a node closer to (or at) the edited one
    paths = [p for p, _ in inv.nodes(d)]
    if draw(st.integers(0, 2)) > 0:
        p = draw(st.sampled_from(paths))
        d = inv.at(d, p)
    # half of the cases: a class-specific conversion at whichever node has one (non-list nodes weighted up: they are rarer)
    pairs = []
    for p, n in inv.nodes(d):
        for e in entries_for(n["class"])[len(COMMON_ENTRIES):]:
            pairs += [(p, e)] * (1 if n["class"].startswith(("List", "Regular", "Numpy")) else 3)
    if pairs and draw(st.booleans()):
        p, entry = draw(st.sampled_from(pairs))
        d = inv.at(d, p)
    else:
        entry = draw(st.sampled_from(entries_for(d["class"])))
    return {"part": "invalid", "desc": d, "rule": r["rule"], "entry": entry}


def max_abs_int(d):
    m = 0
    for key in ("offsets", "starts", "stops", "index", "tags", "mask"):
        for v in d.get(key, []):
            m = max(m, abs(v))
    for key in ("length", "size", "zeros_length"):
        if isinstance(d.get(key), int):
            m = max(m, abs(d[key]))
    if "content" in d:
        m = max(m, max_abs_int(d["content"]))
    for c in d.get("contents", []):
        m = max(m, max_abs_int(c))
    return m


def broken_rule(d):
    """(node class family, documented rule the model sees broken) at the shallowest broken node, or None if valid"""
    from akmodel import valid as V
    for path, n in inv.nodes(d):
        sub = dict(n)
        try:
            if V.constructible(n) is not None:
                return family(n["class"]), "unconstructible"
        except (KeyError, IndexError, TypeError):
            return family(n["class"]), "malformed"
    try:
        reason = V.valid(d)
    except (M.Invalid, KeyError, IndexError, ZeroDivisionError, TypeError):
        reason = "unevaluable"
    if reason is None:
        return None
    return "", reason


def _len_or_none(d):
    try:
        return M.length_of(d)
    except (M.Invalid, ZeroDivisionError, KeyError, IndexError, TypeError):
        return None


def local_rules(d, out=None):
    """the documented structural rules (docs-sphinx/ak.layout.*.rst) broken *at* each node, as a set of '<class family>:<rule>';
    nesting rules (option in option, union in union) and parameter rules are not memory-related and are left out"""
    out = set() if out is None else out
    cls = d["class"]
    fam = family(cls)
    if cls.startswith(("ListOffsetArray", "ListArray")):
        n = _len_or_none(d["content"])
        pairs = zip(d["offsets"][:-1], d["offsets"][1:]) if cls.startswith("ListOffsetArray") else zip(d["starts"], d["stops"])
        for a, b in pairs:
            if a > b:
                out.add(fam + ":start>stop")
            if a < 0 or b < 0:
                out.add(fam + ":negative")
            if n is None or (a != b and b > n) or a > n:
                out.add(fam + ":beyond_content")
        if cls.startswith("ListArray") and len(d["stops"]) != len(d["starts"]):
            out.add(fam + ":len(stops)!=len(starts)")
    elif cls.startswith("Indexed"):
        n = _len_or_none(d["content"])
        for x in d["index"]:
            if x < 0 and not cls.startswith("IndexedOption"):
                out.add(fam + ":negative")
            if n is None or x >= n:
                out.add(fam + ":beyond_content")
    elif cls == "ByteMaskedArray":
        n = _len_or_none(d["content"])
        if n is None or n < len(d["mask"]):
            out.add(fam + ":content_shorter")
    elif cls == "BitMaskedArray":
        n = _len_or_none(d["content"])
        if len(d["mask"]) * 8 < d["length"]:
            out.add(fam + ":mask_shorter")
        if n is None or n < d["length"]:
            out.add(fam + ":content_shorter")
        if d["length"] < 0:
            out.add(fam + ":negative")
    elif cls == "RecordArray":
        n = _len_or_none(d)
        if n is not None and n < 0:
            out.add(fam + ":negative")
        for c in d["contents"]:
            m = _len_or_none(c)
            if m is None or n is None or m < n:
                out.add(fam + ":field_shorter")
    elif cls.startswith("UnionArray"):
        if len(d["index"]) < len(d["tags"]):
            out.add(fam + ":index_shorter")
        lens = [_len_or_none(c) for c in d["contents"]]
        for t, i in zip(d["tags"], d["index"]):
            if t < 0 or t >= len(lens):
                out.add(fam + ":tag_range")
            elif i < 0 or lens[t] is None or i >= lens[t]:
                out.add(fam + ":index_range")
        if any(i < 0 for i in d["index"]):
            out.add(fam + ":negative")
    elif cls == "RegularArray":
        if d["size"] < 0 or d.get("zeros_length", 0) < 0:
            out.add(fam + ":negative")
    if "content" in d:
        local_rules(d["content"], out)
    for c in d.get("contents", []):
        local_rules(c, out)
    return out


def invalid_label(case):
    try:
        rules = sorted(local_rules(case["desc"]))
    except (KeyError, IndexError, TypeError):
        rules = ["malformed"]
    return "%s|%s" % (case["entry"], "+".join(rules) or "structurally_valid")


def run_invalid(case):
    desc, entry = case["desc"], case["entry"]
    label = invalid_label(case)
    huge = max_abs_int(desc) >= HUGE_INT
    if huge and FLAVOUR != "plain":
        return {"discarded": "layout with huge integers needs RLIMIT_AS (plain flavour only)"}
    tags = ["part:invalid", "entry:" + entry, "rule:" + case["rule"].split(":")[0] + (":" + case["rule"].split(":")[1] if case["rule"].startswith(("bold", "perturb")) else "")]
    buffers = []
    try:
        lay = D.build(desc, buffers)
    except ValueError:
        return {"tags": tags + ["constructor_refused"], "nontrivial": False}
    snaps = [b.tobytes() for b in buffers]
    kind, res = ops.outcome(lambda: apply_entry(lay, entry))
    # on an invalid layout a computed length may be negative or enormous: std::bad_alloc (MemoryError) is an ordinary exception
    _check_kind_label(label, kind, res, True)
    tags.append("outcome:" + (kind if kind != "OtherNativeError" else "bad_alloc"))
    if kind == "ok" and isinstance(res, L.Content):
        try:
            tags.append(read_result(res))
        except Violation as v:
            v.bucket = v.bucket + ":" + label
            raise
    for b, s in zip(buffers, snaps):
        if b.tobytes() != s:
            raise Violation("purity:" + label, "an input buffer was modified by %s" % entry, clause="C12-purity")
    br = broken_rule(desc)
    tags.append("model_invalid:%s" % (br is not None))
    return {"tags": tags, "nontrivial": br is not None, "sample_class": "invalid:" + entry}


# ====================================================================== part C: histories
libc = ctypes.CDLL(None)
libc.malloc.restype = ctypes.c_void_p
libc.malloc.argtypes = [ctypes.c_size_t]
libc.free.argtypes = [ctypes.c_void_p]


class Buf(object):
    """a malloc'ed buffer owned by the harness and lent to the library under a release token"""

    def __init__(self, data):
        self.nbytes = len(data)
        self.ptr = libc.malloc(max(self.nbytes, 0))
        if not self.ptr:
            raise HarnessError("malloc failed")
        if self.nbytes:
            ctypes.memmove(self.ptr, data, self.nbytes)
        self.snapshot = bytes(data)
        self.token = core.keep(self)
        self.freed = False

    def released(self):
        return self.token not in core._KEEP

    def intact(self):
        return ctypes.string_at(self.ptr, self.nbytes) == self.snapshot

    def scribble_and_free(self):
        if self.nbytes:
            garbage = bytes(b ^ 0xFF for b in self.snapshot)
            ctypes.memmove(self.ptr, garbage, self.nbytes)
        libc.free(self.ptr)
        self.freed = True


class Builder(object):
    """description -> layout with every buffer either lent (mode 'view': malloc'ed, token) or copied into library-owned memory ('owned')"""

    def __init__(self, mode):
        self.mode = mode
        self.bufs = []

    def index(self, width, data):
        arr = np.array(data, dtype=D._NPIDX[width]) if len(data) else np.zeros(0, D._NPIDX[width])
        cls = D._IDX[width]
        if self.mode == "owned":
            h = core.lib.akb_index_new(cls._kind, arr.ctypes.data, len(arr), -1)
        else:
            b = Buf(arr.tobytes())
            self.bufs.append(b)
            h = core.lib.akb_index_new(cls._kind, b.ptr, len(arr), b.token)
        if h == -1:
            core.raise_status(4)
        return cls(_h=h)

    def numpy(self, d):
        params = d.get("parameters") or None
        if self.mode == "owned":
            arr = np.ascontiguousarray(M.numpy_data(d))
            out = L.NumpyArray(arr, parameters=params, _copy=True)
            return out
        phys = D.numpy_physical(d)
        root = phys.base if phys.base is not None else phys
        if not (root.flags.c_contiguous or root.flags.f_contiguous):
            raise HarnessError("physical numpy root is not one block")
        raw = root.tobytes(order="A")
        b = Buf(raw)
        self.bufs.append(b)
        off = phys.ctypes.data - root.ctypes.data if phys.size and root.size else 0
        fmt, dtname = L._format_of(phys.dtype)
        shape = (core.c_i64 * phys.ndim)(*phys.shape)
        strides = (core.c_i64 * phys.ndim)(*phys.strides)
        h = core.lib.akb_numpy_new(b.ptr + off, 0, phys.ndim, shape, strides, 0, phys.dtype.itemsize, fmt.encode(), L.DTYPE_ENUM.index(dtname), b.token)
        if h == -1:
            core.raise_status(4)
        out = L.NumpyArray(_h=h)
        if params:
            core.call("setparameters", [h], ss=L._params_to_ss(params))
        return out

    def build(self, d):
        cls = d["class"]
        params = d.get("parameters") or None
        if cls == "NumpyArray":
            return self.numpy(d)
        if cls == "EmptyArray":
            return L.EmptyArray(parameters=params)
        if cls.startswith("ListOffsetArray"):
            return getattr(L, cls)(self.index(D.width_of(cls), d["offsets"]), self.build(d["content"]), parameters=params)
        if cls.startswith("ListArray"):
            w = D.width_of(cls)
            return getattr(L, cls)(self.index(w, d["starts"]), self.index(w, d["stops"]), self.build(d["content"]), parameters=params)
        if cls == "RegularArray":
            return L.RegularArray(self.build(d["content"]), d["size"], d.get("zeros_length", 0), parameters=params)
        if cls.startswith("Indexed"):
            return getattr(L, cls)(self.index(D.width_of(cls), d["index"]), self.build(d["content"]), parameters=params)
        if cls == "ByteMaskedArray":
            return L.ByteMaskedArray(self.index("8", d["mask"]), self.build(d["content"]), d["valid_when"], parameters=params)
        if cls == "BitMaskedArray":
            return L.BitMaskedArray(self.index("U8", d["mask"]), self.build(d["content"]), d["valid_when"], d["length"], d["lsb_order"], parameters=params)
        if cls == "UnmaskedArray":
            return L.UnmaskedArray(self.build(d["content"]), parameters=params)
        if cls == "RecordArray":
            return L.RecordArray([self.build(c) for c in d["contents"]], d.get("keys"), d.get("length"), parameters=params)
        if cls.startswith("UnionArray"):
            return getattr(L, cls)(self.index("8", d["tags"]), self.index(D.width_of(cls), d["index"]), [self.build(c) for c in d["contents"]], parameters=params)
        raise HarnessError("cannot build " + cls)


HISTORY_FAMILIES = ["getitem_at", "getitem_range", "getitem_range", "getitem", "num", "flatten", "flatten", "localindex", "reduce", "sort", "argsort", "rpad",
                    "rpad_and_clip", "combinations", "simplify", "deep_copy", "carry", "numbers_to_type", "fillna"]


@st.composite
def history_op(draw, T, vals, cls):
    k = draw(st.integers(0, 9))
    if k < 2:
        return {"op": "child", "i": draw(st.integers(0, 2))}
    if k < 4:
        return {"op": "entry", "entry": draw(st.sampled_from(["toListOffsetArray64", "toListOffsetArray64_nozero", "toRegularArray", "project", "project0",
                                                               "toIndexedOptionArray64", "toByteMaskedArray", "getitem_nothing", "contiguous", "simplify"]))}
    return draw(ops.draw_op(T, vals, HISTORY_FAMILIES))


@st.composite
def history_case(draw):
    cfg = gen.Cfg(max_depth=3, leaf_dtypes=("int64", "float64", "bool", "uint8", "int32"), max_len=4, max_list=3, unknown=False)
    inputs = []
    tvs = []
    for _ in range(draw(st.sampled_from([1, 1, 2]))):
        T = draw(gen.types(cfg))
        vals = draw(gen.values(T, cfg, n=draw(st.sampled_from([1, 2, 3, 4, 0]))))
        desc = draw(gen.encode(T, vals, cfg))
        inputs.append({"desc": desc, "mode": draw(st.sampled_from(["view", "view", "owned"]))})
        tvs.append((T, vals, desc["class"]))
    steps = []
    for _ in range(draw(st.integers(4, 30))):
        k = draw(st.sampled_from(["derive", "derive", "derive", "derive", "derive", "drop", "drop", "read", "read", "read"]))
        if k == "derive":
            T, vals, cls = tvs[draw(st.integers(0, len(tvs) - 1))]
            # sources are biased to the original inputs so that several results share one input
            steps.append({"k": "derive", "src": draw(st.sampled_from([0, 0, 0, 1, 1, 2, 3, 5, 8])), "spec": draw(history_op(T, vals, cls))})
        else:
            steps.append({"k": k, "i": draw(st.integers(0, 12))})
    return {"part": "history", "inputs": inputs, "steps": steps}


HISTORY_MAX_TUPLES = 2000


def history_too_big(T, vals, spec):
    """histories are about lifetimes, not sizes: repeated combinations of combinations grow without bound, so a derive step
    whose result would have more than HISTORY_MAX_TUPLES tuples at any level is skipped (counted)"""
    if spec["op"] != "combinations":
        return False
    if request_class(T, vals, spec) != "moderate":
        return True
    for group in (list_lengths_at(T, vals, spec["axis"]) or [], all_list_lengths(T, vals)):
        if comb_class(group, spec["n"], spec["replacement"])[1] > HISTORY_MAX_TUPLES:
            return True
    return False


class Entry(object):
    def __init__(self, obj, value, text, parents):
        self.obj, self.value, self.text, self.parents = obj, value, text, parents


def text_of(obj):
    kind, s = ops.outcome(lambda: obj.tojson())
    _check_kind("history.tojson", kind, s if isinstance(s, str) else "", False)
    return [kind, s if kind == "ok" else ""]


def run_history(case):
    pool = []          # Entry or None (dropped / never created)
    dropped = set()
    bufs = []
    counts = {"step:derive_ok": 0, "step:derive_raised": 0, "step:derive_skipped": 0, "step:derive_unpooled": 0, "step:drop": 0, "step:read": 0,
              "step:noop": 0, "buffers_scribbled": 0, "read_after_input_dropped": 0}
    for inp in case["inputs"]:
        b = Builder(inp["mode"])
        lay = b.build(inp["desc"])
        bufs.extend(b.bufs)
        tv = M.decode(inp["desc"])
        got = snapshot_value(lay)
        if not same_tv(got, tv):
            raise HarnessError("a freshly built history input does not read back as the description's value")
        pool.append(Entry(lay, tv, text_of(lay), ()))
        del lay, b

    def live():
        return [i for i, e in enumerate(pool) if e is not None]

    def sweep():
        """overwrite and free every lent buffer the library no longer references"""
        gc.collect()
        core.drain()
        for b in bufs:
            if not b.freed:
                if b.released():
                    b.scribble_and_free()
                    counts["buffers_scribbled"] += 1
                elif not b.intact():
                    raise Violation("purity:history", "a buffer lent to the library was modified", clause="C12-purity")

    def reread(i, why):
        e = pool[i]
        now = D.value_of(e.obj) if isinstance(e.obj, L.Record) else snapshot_value(e.obj)
        try_same = now is not None and (M.same_value(now[1], e.value[1]) and (isinstance(e.obj, L.Record) or now[0] == e.value[0]))
        anc = any(p in dropped for p in e.parents)
        if anc:
            counts["read_after_input_dropped"] += 1
        if not try_same:
            raise Violation("lifetime:" + why + ("|input_dropped" if anc else ""), "pool[%d] no longer has the value recorded when it was created (%s)" % (i, why),
                            expected=M.jsonable(e.value[1]), observed=M.jsonable(now[1]) if now else "unevaluable", clause="C12-lifetime")
        t = text_of(e.obj)
        if t != e.text:
            raise Violation("lifetime:" + why + ":tojson" + ("|input_dropped" if anc else ""), "tojson of pool[%d] changed since it was created (%s)" % (i, why),
                            expected=e.text[1][:400], observed=t[1][:400], clause="C12-lifetime")

    for step in case["steps"]:
        lv = live()
        if TRACE:
            import sys
            sys.stderr.write("C12-TRACE step %s live=%s\n" % (json.dumps(step), lv))
            sys.stderr.flush()
        if not lv:
            counts["step:noop"] += 1
            continue
        if step["k"] == "derive":
            src = lv[step["src"] % len(lv)]
            e = pool[src]
            spec = step["spec"]
            if isinstance(e.obj, L.Record):
                counts["step:derive_skipped"] += 1
                pool.append(None)
                continue
            try:
                sd = D.describe(e.obj)
                excl = K.pre_exclude(spec, sd) if spec["op"] not in ("entry", "child") else None
                excl = excl or c12_exclude({"part": "corner", "desc": sd, "spec": spec})
            except (M.Invalid, KeyError):
                excl = "undescribable"
            if spec["op"] == "carry":
                # Content::carry is an internal building block whose callers always pass positions inside the array: the drawn
                # positions are folded into the source's current length
                ln = len(e.value[1])
                spec = dict(spec, index=[i % ln for i in spec["index"]] if ln else [])
            if not excl and history_too_big(e.value[0], e.value[1], spec):
                excl = "result too big for a history"
            if not excl and spec["op"] == "reduce" and ("'string'" in repr(e.value[0]) or "'bytes'" in repr(e.value[0])):
                excl = "reducers are defined on numeric leaves, not on strings"        # the same restriction as in run_corner
            if excl:
                counts["step:derive_skipped"] += 1
                pool.append(None)
                continue
            kind, res = ops.outcome(lambda: apply(e.obj, spec))
            _check_kind_label("history:" + _oplabel(spec), kind, res, False)
            if kind != "ok":
                counts["step:derive_raised"] += 1
                pool.append(None)
                continue
            entry = None
            if isinstance(res, L.Content):
                # only valid, evaluable results are fed back (the statement covers operations on valid arrays)
                ok = isinstance(res, L.Record) or ops.outcome(lambda: res.validityerror()) == ("ok", None)
                if ok:
                    try:
                        tv = D.value_of(res)
                        entry = Entry(res, tv, text_of(res), e.parents + (src,))
                    except M.Invalid:
                        entry = None
            pool.append(entry)
            counts["step:derive_ok" if entry is not None else "step:derive_unpooled"] += 1
            e = res = entry = None
        elif step["k"] == "drop":
            if len(lv) == 1:
                counts["step:noop"] += 1      # the last survivor is only dropped in the epilogue
                continue
            i = lv[step["i"] % len(lv)]
            pool[i] = None
            dropped.add(i)
            counts["step:drop"] += 1
            sweep()
        else:
            i = lv[step["i"] % len(lv)]
            sweep()
            reread(i, "read")
            counts["step:read"] += 1
    # epilogue: every survivor, after everything releasable was scribbled on
    e = res = entry = None
    sweep()
    for i in live():
        reread(i, "final")
    # then drop the survivors one by one, oldest first, re-reading the rest each time
    for i in live():
        pool[i] = None
        dropped.add(i)
        sweep()
        for j in live():
            reread(j, "after_drop")
    leaked = [b for b in bufs if not b.freed]
    tags = ["part:history", "history_inputs:%d" % len(case["inputs"])] + ["history_mode:" + i["mode"] for i in case["inputs"]]
    if leaked:
        tags.append("history_buffer_never_released")
    return {"tags": tags, "counts": counts, "nontrivial": counts["read_after_input_dropped"] > 0, "sample_class": "history"}


# ====================================================================== known findings of this property
KNOWN = dict(K.PREDICATES)
C12_EXCLUSIONS = []     # (name, fn(case) -> bool): cases whose known defect kills the process


def c12_known(name, exclude=True):
    def deco(fn):
        KNOWN[name] = lambda case, vio, fn=fn: _safe(fn, case)
        if exclude:
            C12_EXCLUSIONS.append((name, fn))
        return fn
    return deco


def _safe(fn, case):
    try:
        return bool(fn(case))
    except (M.Invalid, KeyError, IndexError, TypeError, ZeroDivisionError):
        return False


def c12_exclude(case):
    for name, fn in C12_EXCLUSIONS:
        if _safe(fn, case):
            return name
    return None


# ---------------------------------------------------------------------- invalid layouts: conversions that trust the layout
# Entry points that only look at the node structure (never at positions computed from the buffers): a crash there is never known.
STRUCTURE_ONLY = ("validityerror", "tostring", "typestr", "form_json", "getitem_nothing")

# known finding -> (broken rules '<class family>:<rule>' as computed by local_rules, entry points observed to read or write out
# of bounds when such a node is present).  An entry that returns an array is followed by printing/tojson of that array, so
# array-returning entries appear wherever tojson does.
ARRAY_RETURNING = ("deep_copy", "simplify", "contiguous", "project", "project0", "project1", "toIndexedOptionArray64", "toByteMaskedArray",
                   "toListOffsetArray64", "toListOffsetArray64_nozero", "toRegularArray")
INVALID_KNOWN = {
    "invalid_record_length_unchecked": (
        ("RecordArray:field_shorter",),
        ("tojson", "to_list") + ARRAY_RETURNING),
    "invalid_list_bounds_unchecked_in_conversions": (
        ("ListArray:negative", "ListArray:beyond_content", "ListArray:start>stop",
         "ListOffsetArray:negative", "ListOffsetArray:beyond_content", "ListOffsetArray:start>stop"),
        ("toListOffsetArray64", "toListOffsetArray64_nozero", "toRegularArray")),
    "invalid_union_index_unchecked_in_project": (
        ("UnionArray8:index_range", "UnionArray8:tag_range", "UnionArray8:negative", "UnionArray8:index_shorter"),
        ("project0", "project1")),
}


def invalid_known_name(case):
    if case.get("part") != "invalid" or case["entry"] in STRUCTURE_ONLY:
        return None
    rules = local_rules(case["desc"])
    for name, (rs, entries) in INVALID_KNOWN.items():
        if case["entry"] in entries and rules & set(rs):
            return name
    return None


def _register_invalid(name):
    KNOWN[name] = lambda case, vio, name=name: (vio.get("bucket", "").startswith("crash:") and _safe(lambda c: invalid_known_name(c) == name, case))


for _name in INVALID_KNOWN:
    _register_invalid(_name)


def rpad_count_overflow(case):
    """rpad / rpad_and_clip below axis 0 size their output as target * (number of lists) (or a sum of max(target, count)) in int64
    without an overflow check"""
    spec = case.get("spec", {})
    return case.get("part") == "corner" and spec.get("op") in ("rpad", "rpad_and_clip") and spec["target"] >= 2 ** 59


KNOWN["rpad_count_overflow"] = lambda case, vio: vio.get("bucket", "").startswith("crash:") and _safe(rpad_count_overflow, case)


def list_nesting(d):
    """largest number of list-type levels (ListArray / ListOffsetArray / RegularArray nodes, strings included, and the inner
    dimensions of an n-d NumpyArray) along a path of the description"""
    cls = d["class"]
    below = max([list_nesting(c) for c in ([d["content"]] if "content" in d else []) + list(d.get("contents", []))] or [0])
    if cls.startswith(("ListArray", "ListOffsetArray")) or cls == "RegularArray":
        return 1 + below
    if cls == "NumpyArray":
        return len(d["shape"]) - 1
    return below


def is_unique_nested(case, vio):
    """is_unique below two or more list levels hands list positions to the content as if they were content positions"""
    return (case.get("part") == "corner" and vio.get("bucket", "").startswith("crash:") and case["spec"]["op"] == "is_unique"
            and list_nesting(case["desc"]) >= 2)


KNOWN["is_unique_nested_lists"] = is_unique_nested


# ====================================================================== runner interface
@st.composite
def strategy_(draw):
    k = draw(st.integers(0, 199))
    if k < 3:
        return draw(history_case())
    if k < 95:
        return draw(corner_case())
    if k < 107:
        return draw(c12p.python_case())
    return draw(invalid_case())


def strategy(tier):
    only = os.environ.get("VERIF_C12_PART")
    if only == "history":
        return history_case()
    if only == "corner":
        return corner_case()
    if only == "invalid":
        return invalid_case()
    if only == "python":
        return c12p.python_case()
    return strategy_()


def setup(flavour, tier):
    from checks import pcommon
    pcommon.ak()          # the Python layer is imported once, before the per-case forks
    if flavour == "plain":
        import resource
        resource.setrlimit(resource.RLIMIT_AS, (AS_LIMIT, AS_LIMIT))
        resource.setrlimit(resource.RLIMIT_CORE, (0, 0))


def case_label(case):
    part = case["part"]
    if part == "corner":
        from checks.modelcheck import region
        T, vals = M.decode(case["desc"])
        pre = case.get("pre")
        return _oplabel(case["spec"]) + "|" + region(T, vals if pre is None else vals[pre[0]:pre[1]], case["spec"])
    if part == "invalid":
        return invalid_label(case)
    if part == "python":
        return "python:" + case["pyop"]["f"]
    return "history"


def sanitizer_alloc_failure(case, tail):
    """called by the worker when the sanitizer build died in a failing operator new (ASan cannot throw std::bad_alloc):
    the same rule as for status 3 in the plain build"""
    part = case["part"]
    if part == "python":
        raise Violation("exception:python:" + case["pyop"]["f"], "std::bad_alloc (the sanitizer build aborts in operator new) in a Python-level call with small arguments",
                        observed=tail[-1500:], clause="C12-exception")
    if part == "invalid":
        # an invalid layout may make a computed length negative or enormous: std::bad_alloc is an ordinary exception (MemoryError)
        return {"tags": ["part:invalid", "entry:" + case["entry"], "outcome:bad_alloc(sanitizer abort in operator new)"], "nontrivial": False}
    label = case_label(case)
    raise Violation("exception:" + label, "%s: std::bad_alloc (the sanitizer build aborts in operator new) for a request that is not explicitly oversized" % label,
                    observed=tail[-1500:], clause="C12-exception")


def sanitizer_benign_report(case, tail):
    """UBSan's pointer-overflow check 'applying non-zero offset N to null pointer': libawkward represents zero-byte buffers by a null
    pointer (awkward_malloc(0)) and adds byte offsets to it without dereferencing the result.  No memory is touched and an
    ordinary build does not terminate, so the statement's clauses are not concerned; the case is tallied, not reported."""
    import re
    if re.search(r"runtime error: applying non-zero offset \d+ to null pointer", tail) and "AddressSanitizer" not in tail:
        return {"tags": ["part:" + case["part"], "ubsan:null_pointer_plus_offset(not dereferenced)"], "nontrivial": False}
    return None


def pre_exclude(case):
    if case["part"] == "corner":
        spec = case["spec"]
        if spec["op"] not in ("entry", "child"):
            name = K.pre_exclude(spec, case["desc"])
            if name:
                return name
    if case["part"] in ("corner", "invalid"):
        return c12_exclude(case)
    if case["part"] == "python":
        return c12p.pre_exclude_python(case)
    return None


def run_case(case):
    part = case["part"]
    if part == "corner":
        return run_corner(case)
    if part == "invalid":
        return run_invalid(case)
    if part == "history":
        return run_history(case)
    if part == "python":
        return c12p.run_python(case)
    raise HarnessError("unknown part")
