"""C14 - builders reproduce exactly the appended values; snapshots are immutable (tier L, histories)."""
import json

from hypothesis import strategies as st

from akgen import gen
from akmodel import builder as B
from akmodel import core as M
from akshim import builder as SB
from akshim import core as C
from akshim import describe as D
from vlib.common import Violation, HarnessError, canon

ID = "C14"
MANIFEST = {
    "technique": "history-based property-based testing (Hypothesis): generated command sequences over the whole builder alphabet, well-nested and ill-nested, against a Python model builder with the documented unification; snapshot immutability, twin-builder determinism and forced buffer growth; generated Python data through ak.from_iter / ak.ArrayBuilder of the unmodified Python layer; Form-driven LayoutBuilder against generated data",
    "level_text": "Generated-input exploration of histories (3/4 of the cases): a composite strategy that tracks the nesting stack draws sequences of <= 60 (quick) / <= 120 (thorough) commands over {null, boolean, integer, real, complex, datetime, timedelta, string, bytestring, beginlist/endlist, begintuple/index/endtuple, beginrecord(name)/field/endrecord, append, extend, snapshot, clear}, about one in eight with one ill-nested command (unbalanced end, field outside a record, index outside a tuple, index too large or negative, value without index/field, slot filled twice, append out of bounds; half of them placed inside an open tuple/record), with ArrayBuilderOptions initial in {1,2,3,8} x resize in {1.1,1.5,2.0} so that every buffer grows repeatedly. Each history runs on two builders (different options, C++ methods vs the exported awkward_ArrayBuilder_* C interface, *_check vs *_fast record calls). After every snapshot command: the snapshot must pass validityerror; decoded, it must equal strictly (int is int, float is float, -0.0, NaN, str vs bytes, tuple vs list) what a pure-Python model accumulated under the documented unification; both builders must give byte-identical descriptions; every earlier snapshot must still have exactly the description (all index and data buffers) it had when taken; len(builder) must be the number of completed items. Predicted errors must be raised; after a refusal at depth 0, clear() must restore a usable builder. Tier P (1/8): generated nested Python data (None, bool, int, float, complex, str, bytes, datetime64/timedelta64, lists, tuples, dicts) through ak.from_iter and, value by value, through the high-level ak.ArrayBuilder of /repo's own Python layer running on the akshim emulation of awkward._ext: both layouts and ak.to_list of both must equal the data under the same model, an intermediate snapshot must not change, from_iter and ArrayBuilder must give identical layouts. LayoutBuilder (1/8): a generated type and data, the Form of its canonical layout, the typed command sequence, and the snapshot must be valid and equal the data. Held on everything generated outside the two recorded LayoutBuilder findings; seven defects found by this check were repaired in /repo and are regression-tested by stored replays.",
    "level_note": "Trusted: the /verif bridge (bridge/akb_builder.cpp) and akshim/builder.py, a re-statement of make_ArrayBuilder/make_LayoutBuilder/builder_fromiter of src/python/content.cpp which cannot be compiled here (the pybind11 glue itself is not decided; ak.from_iter therefore runs /repo's Python on the re-stated builder_fromiter); akmodel.core.decode as the reader of snapshots; akmodel/builder.py as my reading of the documented unification. clear() is taken to keep the type knowledge (ArrayBuilder.h): values appended before it still take part in the unification of what follows. The state of a builder after a refused command inside an open list/tuple/record, and clear() inside one, are not documented: only absence of crashes is required there. Arrays given to append/extend vary in type and in the class of their top node (the only thing the builder dispatches on); below the top node they use the canonical encoding, and when such an array has union type or floating-point leaves, numbers at the same position are compared numerically only (merging is Content::merge, property C08). A record without fields beside a by-reference union array is excluded (counted; known finding zero_field_records). LayoutBuilder: everything is demanded on the Forms of checks/c14.py lb_simple (leaves bool/int64/float64/string/bytestring; lists of lists of leaves; one option over a leaf; regular arrays of numbers; records/tuples of numbers; unions of numbers); other compositions and complex128 leaves are generated (3/10 of the LayoutBuilder cases) but fall under the two known findings, so the clause 'Form-driven LayoutBuilder reproduces the values' is decided only for the simple Forms; data buffers of at least 16 bytes. One history in eight is about append/extend by reference (mostly elements of Indexed/option/plain source arrays, some None, some nested lists); bytestrings are drawn from an alphabet in which a fifth of the bytes are zero.",
}
RULE = ("case = one whole history: builder options of two builders, call route (C++ / C interface, check / fast), up to two small generated arrays for append/extend, "
        "and the command list; or kind 'py': a list of generated Python values for ak.from_iter / ak.ArrayBuilder with the position of an intermediate snapshot; "
        "or kind 'lb': a generated type + data whose canonical Form drives a LayoutBuilder. "
        "non-trivial = the history/data contains a type promotion at one position (int->real/complex, None -> option, incompatible -> union) or records whose fields arrive in different orders / different sets, "
        "AND at least one snapshot that is followed by further value commands (for 'lb': non-empty data below the top level); distinct by hash of the case")
ASSUMPTIONS = ["initial >= 1 and resize > 1 (documented preconditions of ArrayBuilderOptions)",
               "record names and field keys are non-empty strings; one history uses either the *_check or the *_fast record calls, never both (the fast calls compare names by address)",
               "index/field is always followed by a command that fills the slot (documented); an unfilled tuple slot is never generated",
               "after a refused command at nesting depth 0 nothing is assumed about the builder until clear(); after a refusal inside an open structure only 'no crash' is required",
               "clear() removes the data and keeps the type knowledge (ArrayBuilder.h): earlier values still shape the unified type",
               "dict key order of records is not compared (the property does not speak about it)",
               "arrays passed to append/extend are valid, have no zero-field records, and use the canonical encoding below their top node",
               "LayoutBuilder: initial >= 16 bytes; only int64/float64/bool/complex128 leaves (the only typed commands pybind exposes)"]
PLAN = {
    "quick": [{"flavour": "plain", "cases": 3200}, {"flavour": "san", "cases": 800}],
    "thorough": [{"flavour": "plain", "cases": 40000}, {"flavour": "san", "cases": 12000}],
}
WALL_CAP = {"quick": 900, "thorough": 2700}
FORK_EACH = True
MAX_STEPS = {"quick": 60, "thorough": 120}
EXPLANATION = ("Each 'ab' case is a complete command history executed on two ArrayBuilders; the oracle is akmodel/builder.py. "
               "census keys: feat:* model features of the history (region:* = input regions of findings that were repaired in /repo), ill:* the ill-nested command used, "
               "op:* commands executed, snapshots / mid_snapshot (taken inside an open structure), growth (a buffer outgrew `initial`), "
               "py / pyfeat:* tier-P cases, lb / lb:<top node> LayoutBuilder cases.")

ARR_CFG = gen.Cfg(max_depth=2, leaf_dtypes=("int64", "float64", "bool", "int32"), max_len=4, max_list=3, unknown=False, regular=True,
                  numpy_nd=False, nan=False, zero_field_records=False)      # (zero-field records: known finding zero_field_records of C02)
LB_CFG = gen.Cfg(max_depth=3, leaf_dtypes=("int64", "float64", "bool", "complex128"), unions=True, options=True, strings=True,
                 unknown=False, regular=True, nan=True, extremes=True, complex_=True, zero_field_records=False, named_records=True)

KEYS = ["x", "y", "z", "w", "π", "a b"]
RECNAMES = [None, None, None, "A", "B", "év"]
UNITS = ["datetime64[s]", "datetime64[ms]", "datetime64[D]", "datetime64[ns]"]
TUNITS = ["timedelta64[s]", "timedelta64[us]"]
INT64_MIN, INT64_MAX = -2 ** 63, 2 ** 63 - 1

_ints = st.one_of(st.integers(-5, 9), st.integers(-5, 9), st.integers(-5, 9),
                  st.sampled_from([INT64_MIN, INT64_MAX, INT64_MAX - 1, 2 ** 53 + 1, -(2 ** 53) - 1, 2 ** 31, -2 ** 31 - 1]))
_reals = st.one_of(st.integers(-40, 40).map(lambda k: k / 4.0), st.integers(-40, 40).map(lambda k: k / 4.0),
                   st.sampled_from([1e308, -1e308, 5e-324, -0.0, 0.0, float("nan"), float("inf"), float("-inf"), 0.1, 1.5e300]))
_text = st.text(alphabet=st.sampled_from(list("abcXYZ 09\"\\/\n\téΩ€\U0001f600\x00")), max_size=5)
# zero bytes on purpose (st.binary hardly ever draws one): the C++ side has both length-carrying and NUL-terminated entry points
_bytes = st.lists(st.sampled_from([0, 0, 1, 9, 34, 92, 97, 98, 128, 255]), max_size=5).map(lambda b: bytes(b).decode("latin-1"))


@st.composite
def leaf(draw, cplx=True):
    k = draw(st.integers(0, 99))
    if 88 <= k < 93 and not cplx:
        k = k - 88 + 40      # a real instead
    if k < 32:
        return ["integer", draw(_ints)]
    if k < 54:
        return ["real", draw(_reals)]
    if k < 67:
        return ["null"]
    if k < 76:
        return ["boolean", draw(st.booleans())]
    if k < 86:
        return ["string", draw(_text)]
    if k < 88:
        return ["bytestring", draw(_bytes)]
    if k < 93:
        return ["complex", draw(_reals), draw(_reals)]
    if k < 98:
        return ["datetime", draw(st.integers(-3, 10 ** 5)), draw(st.sampled_from(UNITS))]
    return ["timedelta", draw(st.integers(-1000, 1000)), draw(st.sampled_from(TUNITS))]


def _needs_value(fr):
    return fr.kind in ("tuple", "record") and fr.cur is not None and not fr.fills.get(fr.cur)


MONO = ("list", "record", "tuple", "integer", "real", "string", "boolean", "null+list")


@st.composite
def _mono_command(draw, mono):
    """a top-level value of the one kind a homogeneous history is made of: the builder node at the top then stays a ListBuilder /
    RecordBuilder / TupleBuilder / StringBuilder / ... (not a UnionBuilder), and that node meets the ill-nested command"""
    if mono == "list" or (mono == "null+list" and draw(st.integers(0, 3))):
        return ["beginlist"]
    if mono == "null+list":
        return ["null"]
    if mono == "record":
        return ["beginrecord", None]
    if mono == "tuple":
        return ["begintuple", 2]
    if mono == "integer":
        return ["integer", draw(_ints)]
    if mono == "real":
        return ["real", draw(_reals)]
    if mono == "string":
        return ["string", draw(_text)]
    return ["boolean", draw(st.booleans())]


@st.composite
def value_command(draw, model, narrays, max_depth, cplx=True, mono=None):
    """one command that puts (or begins) a value at the current position"""
    if mono == "byref":
        # histories about append/extend by reference: mostly elements of the given arrays, some None, some lists of them
        k = draw(st.integers(0, 99))
        a = draw(st.integers(0, narrays - 1))
        n = len(model.arrays[a])
        if k < 65 and n:
            return ["append", a, draw(st.integers(-n, n - 1))]
        if k < 85:
            return ["null"]
        if model.depth() < max_depth:
            return ["beginlist"]
        return ["null"]
    if mono is not None and model.depth() == 0:
        return draw(_mono_command(mono))
    k = draw(st.integers(0, 99))
    deep = model.depth() >= max_depth
    if k < 68 or deep:
        return draw(leaf(cplx))
    if k < 80:
        return ["beginlist"]
    if k < 89:
        return ["beginrecord", draw(st.sampled_from(RECNAMES))]
    if k < 95:
        return ["begintuple", draw(st.sampled_from([0, 1, 2, 2, 3]))]
    if narrays:
        a = draw(st.integers(0, narrays - 1))
        n = len(model.arrays[a])
        if n:
            return ["append", a, draw(st.integers(-n, n - 1))]
    return draw(leaf(cplx))


@st.composite
def next_command(draw, model, narrays, max_depth, cplx=True, mono=None):
    fr = model.top()
    if fr.kind in ("root", "list"):
        k = draw(st.integers(0, 99))
        if fr.kind == "list" and k < 22:
            return ["endlist"]
        if k < 32:
            return ["snapshot"]
        if k < 34 and fr.kind == "root":
            return ["clear"]
        if k < (46 if mono == "byref" else 38) and narrays and not (mono is not None and mono != "byref" and fr.kind == "root"):
            return ["extend", draw(st.integers(0, narrays - 1))]
        return draw(value_command(model, narrays, max_depth, cplx, mono))
    if _needs_value(fr):
        return draw(value_command(model, narrays, max_depth, cplx, mono))
    if fr.kind == "tuple":
        todo = [i for i in range(fr.n) if i not in fr.fills]
        if not todo:
            return ["endtuple"]
        if draw(st.integers(0, 19)) == 0:
            return ["snapshot"]
        return ["index", draw(st.sampled_from(todo))]
    # record
    todo = [k for k in KEYS if k not in fr.fills]
    n = len(fr.fills)
    k = draw(st.integers(0, 99))
    if not todo or k < (5, 25, 50, 75, 90, 100, 100)[n]:
        return ["endrecord"]
    if k >= 97:
        return ["snapshot"]
    # bias towards the common keys so that records at one position overlap, in varying order
    return ["field", draw(st.sampled_from(todo[:3] + todo[:2] + todo))]


@st.composite
def bad_command(draw, model, narrays):
    """(kind, command) - one command that is ill-nested in the current state"""
    fr = model.top()
    opts = []
    if fr.kind != "list":
        opts.append(("unbalanced_endlist", ["endlist"]))
    if fr.kind != "tuple":
        opts.append(("unbalanced_endtuple", ["endtuple"]))
        opts.append(("index_outside_tuple", ["index", draw(st.integers(0, 2))]))
    if fr.kind != "record":
        opts.append(("unbalanced_endrecord", ["endrecord"]))
        opts.append(("field_outside_record", ["field", draw(st.sampled_from(KEYS))]))
    if fr.kind == "tuple" and not _needs_value(fr):
        opts.append(("index_too_large", ["index", fr.n + draw(st.sampled_from([0, 0, 1, 5]))]))
        opts.append(("index_negative", ["index", draw(st.sampled_from([-1, -1, -2, -7]))]))
    if fr.kind in ("tuple", "record") and not _needs_value(fr):
        kind = "value_without_key" if fr.cur is None else "slot_filled_twice"
        opts.append((kind, draw(leaf())))
        opts.append((kind, ["beginlist"]))
    if narrays:
        a = draw(st.integers(0, narrays - 1))
        n = len(model.arrays[a])
        opts.append(("append_out_of_bounds", ["append", a, draw(st.sampled_from([n, n + 3, -n - 1]))]))
    return draw(st.sampled_from(opts))


def _closing(model):
    """commands that close every open structure properly"""
    out = []
    while model.depth() and model.state == "ok":
        fr = model.top()
        if _needs_value(fr):
            cmd = ["integer", 0]
        elif fr.kind == "list":
            cmd = ["endlist"]
        elif fr.kind == "record":
            cmd = ["endrecord"]
        else:
            todo = [i for i in range(fr.n) if i not in fr.fills]
            cmd = ["index", todo[0]] if todo else ["endtuple"]
        model.step(cmd)
        out.append(cmd)
    return out


@st.composite
def byref_array(draw):
    """an array for append/extend.  The builder looks only at the class of the top node (Indexed{32,U32,64}Builder,
    IndexedIO{32,64}Builder, IndexedGenericBuilder), so the top node varies and everything below it is in the canonical
    encoding: merging exotic encodings of nested nodes into the builder's own data is Content::merge (property C08)."""
    T = draw(gen.types(ARR_CFG))
    vals = draw(gen.values(T, ARR_CFG))
    n = len(vals)
    k = draw(st.integers(0, 11))
    d = gen.canonical(T, vals)
    if T[0] == "option":
        if k < 4:
            d["class"] = "IndexedOptionArray32"
        return d
    if k < 6:
        return d
    if k < 9:
        p = list(draw(st.permutations(list(range(n)))))
        cv = [None] * n
        for i in range(n):
            cv[p[i]] = vals[i]
        return {"class": ("IndexedArray32", "IndexedArrayU32", "IndexedArray64")[k - 6], "index": p, "content": gen.canonical(T, cv)}
    if k == 9:
        return {"class": "UnmaskedArray", "content": d}
    if k == 10:
        return {"class": "ByteMaskedArray", "mask": [1] * n, "valid_when": True, "content": d}
    return d


@st.composite
def ab_history(draw, max_steps):
    case = {"kind": "ab",
            "initial": draw(st.sampled_from([1, 2, 3, 8])), "resize": draw(st.sampled_from([1.1, 1.5, 2.0])),
            "initial2": draw(st.sampled_from([1, 2, 3, 8])), "resize2": draw(st.sampled_from([1.1, 1.5, 2.0])),
            "via2": draw(st.sampled_from(["cpp", "capi"])), "fast": draw(st.integers(0, 4)) == 0}
    arrays = []
    byref = draw(st.integers(0, 7)) == 0
    if byref or draw(st.integers(0, 9)) < 4:
        for _ in range(draw(st.integers(1, 2))):
            arrays.append(draw(byref_array()))
    case["arrays"] = arrays
    model = B.BuilderModel([M.decode(d)[1] for d in arrays])
    max_depth = draw(st.sampled_from([1, 2, 3, 3, 4]))
    cplx = draw(st.integers(0, 3)) == 0      # complex values only in a quarter of the histories (several known findings live there)
    # a quarter of the histories are homogeneous at the top level (see _mono_command)
    mono = draw(st.sampled_from(MONO)) if draw(st.integers(0, 3)) == 0 else None
    if byref:
        mono = "byref"
    budget = draw(st.integers(1, max_steps))
    ill_at = draw(st.integers(0, budget)) if draw(st.integers(0, 7 if mono is None else 2)) == 0 else -1
    # half of the ill-nested histories wait for an open tuple/record (wrong tuple index, slot filled twice, value without key)
    ill_in_struct = ill_at >= 0 and draw(st.booleans())
    steps = []
    ill = None
    while len(steps) < budget:
        if (ill_at >= 0 and len(steps) >= ill_at and ill is None
                and (not ill_in_struct or (model.top().kind in ("tuple", "record") and not _needs_value(model.top())))):
            ill, cmd = draw(bad_command(model, len(arrays)))
            steps.append(cmd)
            want = model.step(cmd)
            if ill == "slot_filled_twice":
                # the refusal comes when the tuple/record is closed
                while _needs_value(model.top()) or model.top().kind == "list":
                    c2 = ["integer", 1] if _needs_value(model.top()) else ["endlist"]
                    model.step(c2)
                    steps.append(c2)
                c2 = ["endtuple"] if model.top().kind == "tuple" else ["endrecord"]
                steps.append(c2)
                want = model.step(c2)
            if want != "raise":
                raise HarnessError("generator: %s %r is not refused by the model" % (ill, cmd))
            if model.state == "dirty":
                steps.append(["clear"])
                model.step(["clear"])
                continue
            # refused inside an open structure: the rest is only a crash probe
            tail = [["snapshot"], ["clear"], ["snapshot"], ["integer", 1], ["beginlist"], ["real", 0.5], ["endlist"], ["snapshot"]]
            steps.extend(tail[:draw(st.integers(0, len(tail)))])
            break
        cmd = draw(next_command(model, len(arrays), max_depth, cplx, mono))
        model.step(cmd)
        steps.append(cmd)
    if model.state == "ok" and draw(st.integers(0, 9)) < 8:
        steps.extend(_closing(model))
    case["ill"] = ill
    case["mono"] = mono
    case["steps"] = steps
    return case


_LB_PRIM = st.sampled_from([["prim", "int64"], ["prim", "float64"], ["prim", "bool"]])
_LB_LEAF0 = st.one_of(_LB_PRIM, _LB_PRIM, st.just(["string"]), st.just(["bytes"]))


@st.composite
def lb_simple_type(draw):
    """Forms of the shapes tests/test_0924-layout-builder.py exercises (see lb_simple)"""
    k = draw(st.integers(0, 11))
    if k < 2:
        return draw(_LB_LEAF0)
    if k < 6:
        t = draw(_LB_LEAF0)
        for _ in range(draw(st.integers(1, 3))):
            t = ["list", t]
        return t
    if k < 7:
        return ["option", draw(_LB_LEAF0)]
    if k < 8:
        return ["regular", draw(_LB_PRIM), draw(st.integers(1, 3))]
    if k < 10:
        n = draw(st.integers(1, 3))
        if draw(st.booleans()):
            return ["record", [[str(i), draw(_LB_PRIM)] for i in range(n)], True, draw(st.sampled_from([None, None, "Vec"]))]
        keys = draw(st.permutations(KEYS))[:n]
        return ["record", [[key, draw(_LB_PRIM)] for key in keys], False, draw(st.sampled_from([None, None, "Point"]))]
    prims = draw(st.permutations([["prim", "int64"], ["prim", "float64"], ["prim", "bool"]]))
    return ["union", list(prims[:draw(st.integers(2, 3))])]


def _lb_leaf0(T):
    return T[0] in ("string", "bytes") or (T[0] == "prim" and T[1] in ("int64", "float64", "bool"))


def lb_simple(T):
    """the Forms on which everything the property says is demanded of LayoutBuilder without exception: leaves, lists of
    lists of ... leaves, one option over a leaf, a regular array of numbers, records/tuples of numbers, unions of numbers
    (leaf = bool/int64/float64/string/bytestring).  Other compositions are the region of the known finding
    layoutbuilder_composite_forms."""
    k = T[0]
    if _lb_leaf0(T):
        return True
    if k == "list":
        while T[0] == "list":
            T = T[1]
        return _lb_leaf0(T)
    if k == "option":
        return _lb_leaf0(T[1])
    if k == "regular":
        return T[1][0] == "prim" and _lb_leaf0(T[1])
    if k == "record":
        return len(T[1]) > 0 and all(t[0] == "prim" and _lb_leaf0(t) for _, t in T[1])
    if k == "union":
        return all(t[0] == "prim" and _lb_leaf0(t) for t in T[1])
    return False


@st.composite
def lb_case(draw):
    if draw(st.integers(0, 9)) < 7:
        T = draw(lb_simple_type())
    else:
        T = _no_zero_regular(draw(gen.types(LB_CFG)))
    vals = draw(gen.values(T, LB_CFG))
    return {"kind": "lb", "T": T, "values": _lb_encode(vals),
            "initial": draw(st.sampled_from([16, 16, 17, 64, 1024])), "resize": draw(st.sampled_from([1.1, 1.5, 2.0]))}


def _no_zero_regular(T):
    """a RegularArray of size 0 has no commands at all: its length cannot be communicated to a LayoutBuilder"""
    k = T[0]
    if k == "regular":
        return ["regular", _no_zero_regular(T[1]), T[2] or 2]
    if k in ("list", "option"):
        return [k, _no_zero_regular(T[1])]
    if k == "record":
        return ["record", [[n, _no_zero_regular(t)] for n, t in T[1]], T[2], T[3]]
    if k == "union":
        return ["union", [_no_zero_regular(t) for t in T[1]]]
    return T


# ------------------------------------------------------------------------------------------------ tier P: ak.from_iter / ak.ArrayBuilder
def _enc_leaf(cmd):
    op = cmd[0]
    if op == "null":
        return None
    if op in ("boolean", "integer", "real", "string"):
        return cmd[1]
    if op == "complex":
        return {"c": [cmd[1], cmd[2]]}
    if op in ("datetime", "timedelta"):
        return {"d": [cmd[1], cmd[2]]}
    if op == "bytestring":
        return {"b": cmd[1]}
    raise HarnessError("not a leaf command %r" % (cmd,))


@st.composite
def py_item(draw, depth, cplx):
    """one Python value in the tagged JSON encoding of _lb_encode ({"t": tuple}, {"r": record}, {"b": bytes}, {"c": complex}, {"d": time})"""
    k = draw(st.integers(0, 99))
    if depth <= 0 or k < 50:
        return _enc_leaf(draw(leaf(cplx)))
    if k < 72:
        return [draw(py_item(depth - 1, cplx)) for _ in range(draw(st.integers(0, 4)))]
    if k < 90:
        keys = list(draw(st.permutations(KEYS[:4])))[:draw(st.sampled_from([0, 1, 2, 2, 3]))]
        return {"r": [[key, draw(py_item(depth - 1, cplx))] for key in keys]}
    return {"t": [draw(py_item(depth - 1, cplx)) for _ in range(draw(st.sampled_from([0, 1, 2, 2, 3])))]}


@st.composite
def py_case(draw):
    cplx = draw(st.integers(0, 3)) == 0
    depth = draw(st.sampled_from([1, 2, 2, 3]))
    n = draw(st.integers(0, 9))
    return {"kind": "py", "values": [draw(py_item(depth, cplx)) for _ in range(n)],
            "initial": draw(st.sampled_from([1, 2, 3, 8])), "resize": draw(st.sampled_from([1.1, 1.5, 2.0])),
            "snap_at": draw(st.integers(0, n))}


def _py_steps(v, out):
    """the command sequence builder_fromiter (src/python/content.cpp) issues for one value"""
    if v is None:
        out.append(["null"])
    elif isinstance(v, bool):
        out.append(["boolean", v])
    elif isinstance(v, int):
        out.append(["integer", v])
    elif isinstance(v, float):
        out.append(["real", v])
    elif isinstance(v, str):
        out.append(["string", v])
    elif isinstance(v, list):
        out.append(["beginlist"])
        for x in v:
            _py_steps(x, out)
        out.append(["endlist"])
    elif "c" in v:
        out.append(["complex", v["c"][0], v["c"][1]])
    elif "d" in v:
        out.append(["timedelta" if v["d"][1].startswith("timedelta") else "datetime", v["d"][0], v["d"][1]])
    elif "b" in v:
        out.append(["bytestring", v["b"]])
    elif "t" in v:
        out.append(["begintuple", len(v["t"])])
        for i, x in enumerate(v["t"]):
            out.append(["index", i])
            _py_steps(x, out)
        out.append(["endtuple"])
    else:
        out.append(["beginrecord", None])
        for key, x in v["r"]:
            out.append(["field", key])
            _py_steps(x, out)
        out.append(["endrecord"])
    return out


def _py_as_ab(case):
    """the history a 'py' case amounts to (used to locate it relative to the regions of the known findings)"""
    steps = []
    for v in case["values"]:
        _py_steps(v, steps)
    return {"kind": "ab", "arrays": [], "steps": steps}


@st.composite
def _case(draw, max_steps):
    k = draw(st.integers(0, 15))
    if k < 2:
        return draw(lb_case())
    if k < 4:
        return draw(py_case())
    return draw(ab_history(max_steps))


def strategy(tier):
    return _case(MAX_STEPS[tier])


def setup(flavour, tier):
    from checks import pcommon
    pcommon.ak()        # import /repo's Python layer once per worker: the per-case forks inherit it


# ------------------------------------------------------------------------------------------------ JSON <-> values (lb)
def _lb_encode(v):
    """values -> JSON-able (complex, bytes and tuples are tagged)"""
    if isinstance(v, complex):
        return {"c": [v.real, v.imag]}
    if isinstance(v, bytes):
        return {"b": v.decode("latin-1")}
    if isinstance(v, tuple):
        return {"t": [_lb_encode(x) for x in v]}
    if isinstance(v, dict):
        return {"r": [[k, _lb_encode(x)] for k, x in v.items()]}
    if isinstance(v, list):
        return [_lb_encode(x) for x in v]
    return v


def _lb_decode(v):
    if isinstance(v, dict):
        if "d" in v:
            return B.time_value(v["d"][0], v["d"][1])
        if "c" in v:
            return complex(v["c"][0], v["c"][1])
        if "b" in v:
            return v["b"].encode("latin-1")
        if "t" in v:
            return tuple(_lb_decode(x) for x in v["t"])
        return {k: _lb_decode(x) for k, x in v["r"]}
    if isinstance(v, list):
        return [_lb_decode(x) for x in v]
    return v


# ------------------------------------------------------------------------------------------------ execution
def _apply(b, cmd, layouts, fast):
    """run one command; returns None or the (documented kind of) error raised"""
    op = cmd[0]
    try:
        if op == "null":
            b.null()
        elif op == "boolean":
            b.boolean(bool(cmd[1]))
        elif op == "integer":
            b.integer(cmd[1])
        elif op == "real":
            b.real(cmd[1])
        elif op == "complex":
            b.complex(complex(cmd[1], cmd[2]))
        elif op == "datetime":
            b.datetime(B.time_value(cmd[1], cmd[2]))
        elif op == "timedelta":
            b.timedelta(B.time_value(cmd[1], cmd[2]))
        elif op == "string":
            b.string(cmd[1])
        elif op == "bytestring":
            b.bytestring(cmd[1].encode("latin-1"))
        elif op == "beginlist":
            b.beginlist()
        elif op == "endlist":
            b.endlist()
        elif op == "begintuple":
            b.begintuple(cmd[1])
        elif op == "index":
            b.index(cmd[1])
        elif op == "endtuple":
            b.endtuple()
        elif op == "beginrecord":
            if fast:
                b.beginrecord_fast(cmd[1])
            else:
                b.beginrecord(cmd[1])
        elif op == "field":
            if fast:
                b.field_fast(cmd[1])
            else:
                b.field(cmd[1])
        elif op == "endrecord":
            b.endrecord()
        elif op == "append":
            b.append(layouts[cmd[1]], cmd[2])
        elif op == "extend":
            b.extend(layouts[cmd[1]])
        elif op == "clear":
            b.clear()
        else:
            raise HarnessError("unknown command %r" % (cmd,))
    except (ValueError, RuntimeError, C.OtherNativeError) as e:
        return e
    return None


def _try_describe(layout):
    try:
        return D.describe(layout)
    except Exception as e:      # only used to illustrate a snapshot the library itself calls invalid
        return "not describable: %s" % (str(e)[:200],)


def _frame(model):
    fr = model.top()
    if fr.kind in ("tuple", "record"):
        return fr.kind + ("+key" if fr.cur is not None else "")
    return fr.kind


def _features(case):
    ops = set(c[0] for c in case["steps"])
    feats = [f for f in ("clear", "beginrecord", "begintuple", "complex", "datetime", "timedelta", "append", "extend", "bytestring") if f in ops]
    if case.get("ill"):
        feats.append("ill:" + case["ill"])
    return feats


def case_label(case):
    if case["kind"] == "lb":
        return "lb"
    if case["kind"] == "py":
        return "py"
    return "ab|" + "+".join(_features(case))


def run_case(case):
    if case["kind"] == "lb":
        return run_lb(case)
    if case["kind"] == "py":
        return run_py(case)
    layouts = [D.build(d) for d in case["arrays"]]
    arrvals = [M.decode(d)[1] for d in case["arrays"]]
    model = B.BuilderModel(arrvals)
    fast = bool(case["fast"])
    via2 = "cpp" if fast else case["via2"]      # the C interface route is exercised with the *_check calls
    a = SB.ArrayBuilder(case["initial"], case["resize"])
    b = SB.ArrayBuilder(case["initial2"], case["resize2"], via=via2)
    snaps = []          # (step, layout, canon(description))
    tags = set()
    counts = {}
    feats = set()
    values_after_snapshot = False
    # by-reference arrays with floating-point leaves merge with the builder's own numbers at the same position
    # ("integers become floats when mixed with floats"): numbers are then compared numerically
    # and a by-reference array of union type takes the builder's own numbers in as they are (UnionArray merges anything)
    byref_float = any('"float' in canon(case["arrays"][c[1]]) or '"complex' in canon(case["arrays"][c[1]]) or '"UnionArray' in canon(case["arrays"][c[1]])
                      for c in case["steps"] if c[0] in ("append", "extend"))
    steps = list(case["steps"]) + [["snapshot"]]     # every history ends with a checked snapshot
    nvalues = 0

    def region():
        r = []
        if model.cleared:
            r.append("cleared")
        if layouts:
            r.append("byref")
        if model.depth():
            r.append("open")
        return "+".join(r) or "plain"

    def check_old_snapshots(i):
        for j, lay, cj in snaps:
            now = canon(D.describe(lay))
            if now != cj:
                raise Violation("mutated_snapshot:" + region(), "the snapshot taken at step %d changed after step %d (%r)" % (j, i, steps[i - 1] if i else None),
                                expected=json.loads(cj), observed=json.loads(now), clause="snapshots are immutable")

    for i, cmd in enumerate(steps):
        op = cmd[0]
        frame = _frame(model)
        want = model.step(cmd)
        counts["op:" + op] = counts.get("op:" + op, 0) + 1
        if op == "snapshot":
            if want == "free":
                for bb in (a, b):
                    try:
                        s = bb.snapshot()
                        s.validityerror()
                    except (ValueError, RuntimeError, C.OtherNativeError) as e:
                        tags.add("free_snapshot:" + type(e).__name__)
                continue
            try:
                sa, sb_ = a.snapshot(), b.snapshot()
            except (ValueError, RuntimeError, C.OtherNativeError) as e:
                raise Violation("snapshot_refused:" + region(), "snapshot after step %d raised %s: %s" % (i, type(e).__name__, str(e)[:300]),
                                expected="a snapshot", observed=str(e)[:300])
            # the library's own validity check first: an invalid array may not even be describable
            for snap in (sa, sb_):
                err = snap.validityerror()
                if err is not None:
                    raise Violation("invalid_snapshot:" + region(), "snapshot after step %d is not a valid array: %s" % (i, err[:300]),
                                    observed=_try_describe(snap), clause="C11 closure")
            da, db = D.describe(sa), D.describe(sb_)
            ca, cb = canon(da), canon(db)
            if ca != cb:
                raise Violation("determinism:snapshot|" + region(), "two builders fed the same %d commands give different snapshots" % i,
                                expected=da, observed=db, clause="equal builder states give equal snapshots")
            T, exp, ftags = model.expected()
            feats |= ftags
            Tobs, obs = M.decode(da)
            d = B.diff(exp, obs, lenient=model.tainted or byref_float)
            if d is not None:
                raise Violation("value:%s|%s" % (d[0], region()), "snapshot after step %d differs from the appended values: %s" % (i, d[1]),
                                expected=B.plain(exp), observed=M.jsonable(obs), clause="to_list(snapshot) == appended values")
            for bb in (a, b):
                try:
                    n = len(bb)
                except ValueError:      # Python refuses a negative __len__
                    n = -1
                if n != len(exp):
                    raise Violation("length:" + region(), "len(builder) = %d but %d items are complete" % (n, len(exp)),
                                    expected=len(exp), observed=n)
            check_old_snapshots(i)
            snaps.append((i, sa, ca))
            if model.depth():
                tags.add("mid_snapshot")
            continue
        ra = _apply(a, cmd, layouts, fast)
        rb = _apply(b, cmd, layouts, fast)
        if want == "ok":
            for r in (ra, rb):
                if r is not None:
                    raise Violation("refused:%s|%s" % (op, frame), "step %d %r is well-nested (frame %s) but raised %s: %s" % (i, cmd, frame, type(r).__name__, str(r)[:300]),
                                    expected={"step": i, "cmd": cmd, "outcome": "accepted"}, observed=str(r)[:300], clause="well-nested sequences are accepted")
            if op not in ("clear", "index", "field", "endlist", "endtuple", "endrecord"):
                nvalues += 1
                if snaps:
                    values_after_snapshot = True
        elif want == "raise":
            for r in (ra, rb):
                if r is None:
                    raise Violation("accepted:%s|%s" % (op, frame), "step %d %r is ill-nested (frame %s) but no error was raised" % (i, cmd, frame),
                                    expected={"step": i, "cmd": cmd, "outcome": "ValueError"}, observed="accepted", clause="a malformed call sequence raises an error")
                if isinstance(r, C.OtherNativeError):
                    raise Violation("wrong_error:%s|%s" % (op, frame), "step %d %r is ill-nested; it raised %s instead of a documented error" % (i, cmd, str(r)[:200]),
                                    expected="ValueError", observed=str(r)[:200])
        elif ra is not None or rb is not None:
            tags.add("free:" + type(ra if ra is not None else rb).__name__)
        if (ra is None) != (rb is None):
            raise Violation("determinism:error|" + op, "step %d %r raised on one builder only" % (i, cmd), expected=str(ra), observed=str(rb))
    check_old_snapshots(len(steps))

    if case["initial"] < nvalues or case["initial2"] < nvalues:
        tags.add("growth")
    if len(snaps) >= 2:
        tags.add("snapshots>=2")
    if model.cleared:
        tags.add("cleared")
    if model.state != "ok":
        tags.add("ends:" + model.state)
    tags.add("via2:" + via2)
    if case.get("mono"):
        tags.add("mono:" + case["mono"] + ("+ill" if case.get("ill") else ""))
    if fast:
        tags.add("fast")
    if layouts:
        tags.add("byref")
    promo = any(f.startswith("promote:") or f in ("option", "union") for f in feats)
    rec = "record_order" in feats or "record_backfill" in feats
    nontrivial = (promo or rec) and values_after_snapshot
    counts["snapshots"] = len(snaps)
    counts["steps"] = len(case["steps"])
    return {"tags": sorted(tags) + ["feat:" + f for f in sorted(feats)] + (["ill:" + case["ill"]] if case.get("ill") else ["well_nested"]),
            "counts": counts, "nontrivial": nontrivial,
            "sample_class": "ill" if case.get("ill") else ("records" if rec else ("promotion" if promo else "plain"))}


# ------------------------------------------------------------------------------------------------ tier P
_PY_METHOD = {"null": "null", "boolean": "boolean", "integer": "integer", "real": "real", "string": "string", "beginlist": "begin_list",
              "endlist": "end_list", "begintuple": "begin_tuple", "index": "index", "endtuple": "end_tuple", "field": "field",
              "endrecord": "end_record"}


def _py_apply(b, cmd):
    op = cmd[0]
    if op == "complex":
        b.complex(complex(cmd[1], cmd[2]))
    elif op in ("datetime", "timedelta"):
        getattr(b, op)(B.time_value(cmd[1], cmd[2]))
    elif op == "bytestring":
        b.bytestring(cmd[1].encode("latin-1"))
    elif op == "beginrecord":
        b.begin_record(cmd[1])
    elif op in ("null", "beginlist", "endlist", "endtuple", "endrecord"):
        getattr(b, _PY_METHOD[op])()
    else:
        getattr(b, _PY_METHOD[op])(cmd[1])


def run_py(case):
    """ak.from_iter(values) and ak.ArrayBuilder fed the same values, through the unmodified Python layer of /repo"""
    from checks import pcommon as P
    A = P.ak()
    data = _lb_decode(case["values"])
    model = B.BuilderModel()
    per_item = []
    for v in case["values"]:
        st_ = _py_steps(v, [])
        for cmd in st_:
            if model.step(cmd) != "ok":
                raise HarnessError("generator: %r is not well-nested for the model" % (cmd,))
        per_item.append(st_)
    T, exp, feats = model.expected()

    has_time = '"d":' in canon(case["values"])

    def compare(x, what):
        err = x.layout.validityerror()
        if err is not None:
            raise Violation("invalid_snapshot:py:" + what, "%s is not a valid array: %s" % (what, err[:300]), observed=_try_describe(x.layout), clause="C11 closure")
        Tobs, obs = M.decode(D.describe(x.layout))
        d = B.diff(exp, obs)
        if d is not None:
            raise Violation("value:%s|py:%s" % (d[0], what), "%s differs from the Python values it was given: %s" % (what, d[1]),
                            expected=B.plain(exp), observed=M.jsonable(obs), clause="to_list(from_iter(x)) == x up to the documented unification")
        if not has_time:        # (ak.to_list turns times into datetime objects or integers depending on the unit: not compared)
            pv = P.pyvalue(A.to_list(x))
            d = B.diff(exp, pv)
            if d is not None:
                raise Violation("value:%s|py:to_list(%s)" % (d[0], what), "ak.to_list(%s) differs from the Python values it was given: %s" % (what, d[1]),
                                expected=B.plain(exp), observed=M.jsonable(pv), clause="to_list(from_iter(x)) == x up to the documented unification")
        return obs

    def guarded(fn, what):
        try:
            return fn()
        except (ValueError, RuntimeError, TypeError, C.OtherNativeError) as e:
            raise Violation("refused:py:%s" % what, "%s raised %s: %s" % (what, type(e).__name__, str(e)[:300]),
                            expected="accepted", observed=str(e)[:300], clause="well-nested sequences are accepted")

    arr = guarded(lambda: A.from_iter(data, initial=case["initial"], resize=case["resize"]), "from_iter")
    compare(arr, "from_iter")
    # the same values through the high-level ak.ArrayBuilder, with a snapshot taken on the way
    b = A.ArrayBuilder(initial=case["initial"], resize=case["resize"])
    early = None
    for i, cmds in enumerate(per_item):
        if i == case["snap_at"]:
            early = guarded(b.snapshot, "ArrayBuilder.snapshot")
            early_desc = canon(D.describe(early.layout))
        for cmd in cmds:
            guarded(lambda: _py_apply(b, cmd), "ArrayBuilder." + cmd[0])
    snap = guarded(b.snapshot, "ArrayBuilder.snapshot")
    compare(snap, "ArrayBuilder")
    if len(b) != len(exp):
        raise Violation("length:py", "len(ak.ArrayBuilder) = %d after %d values" % (len(b), len(exp)), expected=len(exp), observed=len(b))
    if early is not None:
        now = canon(D.describe(early.layout))
        if now != early_desc or len(early) != case["snap_at"]:
            raise Violation("mutated_snapshot:py", "the snapshot taken after %d values changed while more were appended" % case["snap_at"],
                            expected=json.loads(early_desc), observed=json.loads(now), clause="snapshots are immutable")
    if canon(D.describe(arr.layout)) != canon(D.describe(snap.layout)):
        raise Violation("determinism:py", "ak.from_iter and ak.ArrayBuilder fed the same values give different layouts",
                        expected=D.describe(arr.layout), observed=D.describe(snap.layout), clause="equal builder states give equal snapshots")
    promo = any(f.startswith("promote:") or f in ("option", "union") for f in feats)
    rec = "record_order" in feats or "record_backfill" in feats
    return {"tags": ["py"] + ["pyfeat:" + f for f in sorted(feats) if not f.startswith("region:")],
            "counts": {"py_values": len(exp)}, "nontrivial": (promo or rec) and 0 < case["snap_at"] < len(exp),
            "sample_class": "python"}


# ------------------------------------------------------------------------------------------------ LayoutBuilder
def _lb_tagged(T, v):
    """values of union type carry the member index for layout_commands: (tag, value)"""
    k = T[0]
    if k == "union":
        t = gen.member_of(T, v)
        return (t, _lb_tagged(T[1][t], v))
    if k in ("list", "regular"):
        return [_lb_tagged(T[1], x) for x in v]
    if k == "option":
        return None if v is None else _lb_tagged(T[1], v)
    if k == "record":
        if T[2]:
            return tuple(_lb_tagged(t, x) for (_, t), x in zip(T[1], v))
        return {n: _lb_tagged(t, v[n]) for n, t in T[1]}
    return v


def run_lb(case):
    T = case["T"]
    vals = _lb_decode(case["values"])
    desc = gen.canonical(T, vals)
    ref = D.build(desc)
    form = C.result_str(C.call("form_json", [ref._h], [0, 0]))
    cmds = B.layout_commands(desc, [_lb_tagged(T, v) for v in vals])
    try:
        lb = SB.LayoutBuilder(form, initial=case["initial"], resize=case["resize"])
    except (ValueError, RuntimeError) as e:
        raise Violation("lb_form_refused|" + _lb_shape(T), "LayoutBuilder(form) raised %s: %s" % (type(e).__name__, str(e)[:300]), expected=json.loads(form), observed=str(e)[:300])
    for i, cmd in enumerate(cmds):
        op = cmd[0]
        try:
            if op == "complex":
                lb.complex(complex(cmd[1], cmd[2]))
            elif op == "bytestring":
                lb.bytestring(cmd[1].encode("latin-1"))
            elif op in ("null", "begin_list", "end_list"):
                getattr(lb, op)()
            else:
                getattr(lb, op)(cmd[1])
        except (ValueError, RuntimeError) as e:
            raise Violation("lb_refused:%s|%s" % (op, _lb_shape(T)), "LayoutBuilder command %d %r conforming to the Form raised %s: %s" % (i, cmd, type(e).__name__, str(e)[:300]),
                            expected="accepted", observed=str(e)[:300])
    try:
        snap = lb.snapshot()
    except (ValueError, RuntimeError) as e:
        raise Violation("lb_snapshot_refused|" + _lb_shape(T), "snapshot raised %s: %s" % (type(e).__name__, str(e)[:300]), observed=str(e)[:300])
    err = snap.validityerror()
    if err is not None:
        raise Violation("lb_invalid_snapshot|" + _lb_shape(T), "LayoutBuilder snapshot is invalid: " + err[:300], observed=_try_describe(snap))
    try:
        d = D.describe(snap)
    except ValueError as e:
        if "negative dimensions" not in str(e):
            raise
        # a node with a negative length below a node of length 0 (the validity check does not descend there)
        raise Violation("lb_invalid_snapshot|" + _lb_shape(T), "LayoutBuilder snapshot contains an index of negative length", observed=str(e)[:200])
    try:
        Tobs, obs = M.decode(d)
    except M.Invalid as e:
        # structurally ill-formed although validityerror() is silent (it does not look below a node of length 0)
        raise Violation("lb_invalid_snapshot|" + _lb_shape(T), "LayoutBuilder snapshot is not a well-formed array: %s" % (str(e)[:200],), observed=d)
    if not M.same_value(vals, obs):
        raise Violation("lb_value|" + _lb_shape(T), "LayoutBuilder snapshot differs from the data it was given", expected=M.jsonable(vals), observed=M.jsonable(obs))
    return {"tags": ["lb", "lb:" + T[0]], "counts": {"lb_commands": len(cmds)}, "nontrivial": len(cmds) > len(vals) > 0, "sample_class": "layoutbuilder"}


def _lb_shape(T):
    k = T[0]
    if k in ("list", "regular", "option"):
        return k + ">" + _lb_shape(T[1])
    if k == "record":
        return "record(" + ",".join(_lb_shape(t) for _, t in T[1]) + ")"
    if k == "union":
        return "union(" + ",".join(_lb_shape(t) for t in T[1]) + ")"
    return k if k != "prim" else T[1]


# ------------------------------------------------------------------------------------------------ known findings
def regions(case):
    """input regions of the recorded known findings that this history enters (computed on the model, not the library)"""
    if case.get("kind") == "py":
        case = _py_as_ab(case)
    if case.get("kind") != "ab":
        return set()
    model = B.BuilderModel([M.decode(d)[1] for d in case["arrays"]])
    out = set()
    seen_struct = False
    for cmd in list(case["steps"]) + [["snapshot"]]:
        op = cmd[0]
        if op == "index" and model.state == "ok" and model.top().kind == "tuple":
            outer = [fr.n for fr in model.stack[1:-1] if fr.kind == "tuple"]
            if 0 <= cmd[1] < model.top().n and any(cmd[1] >= n for n in outer):
                out.add("region:nested_tuple_index")
            if cmd[1] < 0:
                out.add("region:negative_tuple_index")
        if op in ("beginrecord", "begintuple"):
            seen_struct = True
        if op == "endrecord" and model.state == "ok" and model.top().kind == "record" and not model.top().fills:
            out.add("region:empty_record")
        if op == "clear" and seen_struct:
            out.add("region:struct_then_clear")
        model.step(cmd)
        if op == "snapshot" and model.state == "ok":
            out |= set(t for t in model.expected()[2] if t.startswith("region:"))
    for k in set(c[1] for c in case["steps"] if c[0] in ("append", "extend")):
        d = case["arrays"][k]
        if d["class"].startswith("Indexed") and (d["content"].get("parameters") or {}).get("__array__") in ("string", "bytestring"):
            out.add("region:indexed_byref_string")
        if d["class"] in ("ByteMaskedArray", "BitMaskedArray", "UnmaskedArray"):
            out.add("region:masked_byref")
    return out


def _has_empty_record(case):
    """a record or tuple without fields is begun somewhere in the history (syntactic: also after a refused command, where the
    model no longer follows the builder)"""
    steps = [c for c in case["steps"] if c[0] != "snapshot"]
    for i, c in enumerate(steps):
        if c[0] == "begintuple" and c[1] == 0:
            return True
        if c[0] == "beginrecord" and i + 1 < len(steps) and steps[i + 1][0] == "endrecord":
            return True
    return "region:empty_record" in regions(case)


def pre_exclude(case):
    """histories that die in a finding recorded by another property (counted as excluded_by_finding)"""
    if case.get("kind") != "ab" or not case["arrays"]:
        return None
    used = set(c[1] for c in case["steps"] if c[0] in ("append", "extend"))
    if any('"UnionArray' in canon(case["arrays"][k]) for k in used) and _has_empty_record(case):
        # a record/tuple without fields ({} or ()) beside a by-reference array of union type: the snapshot's simplify_uniontype merges
        # the zero-field RecordArray, which loses its length (known finding zero_field_records of C02) -> heap overflow
        return "zero_field_records"
    return None


def _lb_has_complex(T):
    return '"complex128"' in canon(T)


def _lb_complex(case, vio):
    return (case.get("kind") == "lb" and _lb_has_complex(case["T"]) and vio["bucket"].startswith("lb_form_refused")
            and "output dtype not recognized" in (vio.get("message") or ""))


def _lb_composite(case, vio):
    return (case.get("kind") == "lb" and not _lb_has_complex(case["T"]) and not lb_simple(case["T"])
            and vio["bucket"].startswith(("lb_", "crash:lb", "hang:lb")))


KNOWN = {
    # LayoutBuilder: a Form with a complex128 leaf is accepted by the Form parser but its AwkwardForth program declares
    # "output ... complex128", a dtype ForthMachine does not know: the constructor raises
    "layoutbuilder_complex128": _lb_complex,
    # LayoutBuilder on Forms that nest list/option/regular/record/union nodes in other than the simplest ways (see lb_simple)
    "layoutbuilder_composite_forms": _lb_composite,
}
# Repaired in /repo (status "fixed" in known_findings.jsonl; their replays are the regression tier, no predicate any more):
#   7dbd1d8 StringBuilder::string ignored `encoding` (string and bytestring at one position; census tag region:str+bytes)
#   711e6b0 RecordBuilder/TupleBuilder::clear left keys/contents misaligned (region:struct_then_clear)
#   94b7933 Complex128Builder::fromint64 converted 2*length items (region:int_then_complex)
#   9413bda NumpyArray::mergemany filled half of the reals merged into complex128 (region:complex_union)
#   a7cd14c Indexed*Builder::snapshot: content parameters on the IndexedArray64 / masked arrays not simplified
#   403e50a TupleBuilder::index checked the outer tuple's bound and accepted negative indexes
#   0679c73 LayoutBuilder UnionArrayBuilder::snapshot sized `current` by len(tags)

SEED_CASES = []
