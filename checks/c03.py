"""C03 - reducers combine exactly the elements that differ only along the reduced axis (tier L)."""
from akgen import gen
from akmodel import core as M
from checks import modelbased

MANIFEST = {
    "technique": "model-based property testing (Hypothesis): grouped-reduction reference model on nested Python values vs the library on generated physical encodings",
    "level_text": "Generated-input exploration: a type-directed generator draws numeric arrays (1-4 list levels, options at any level, records, all list/option encodings, 32/U32/64-bit indexes, non-zero offsets, strided buffers) and a reducer x axis x mask_identity x keepdims; the result read back through an independent evaluator must equal a pure-Python reference that left-aligns the lists at the axis and reduces each coordinate group. Held on everything generated outside the recorded known findings.",
    "level_note": "Trusted: akmodel.ops.reduce (self-checked against NumPy on rectilinear data), akmodel.decode, the /verif bridge. The Python-level axis=None path and datetime leaves are not covered here.",
}
RULE = ("case = (physical description of a numeric array, reducer, axis, mask_identity, keepdims); expected = akmodel.ops.reduce on the decoded value; "
        "non-trivial = result non-empty and (axis not innermost, or an empty/all-missing group, or an option above the leaves, or a non-canonical list node); "
        "distinct by hash of the case")
ASSUMPTIONS = ["argmin/argmax positions are coordinates along the reduced axis (the reading upstream's test_0410 asserts at depth 2)",
               "sums/products are drawn from dyadic rationals / small integers so every association order is exact"]
CFG = gen.Cfg(max_depth=3, leaf_dtypes=("int64", "float64", "bool", "int32", "uint8", "float32"), records=True, unions=False, strings=False,
              unknown=False, tuples=True, zero_field_records=False)


def _nontrivial(T, vals, desc, spec):
    mn, mx = M.minmax_depth(T)
    ax = spec["axis"]
    return (ax not in (-1, mx - 1)) or gen.noncanonical(desc) or "option" in repr(T)


modelbased.install(globals(), "C03", ["reduce"], CFG, nontrivial=_nontrivial)
