"""C12, tier P: the Python-level operations (the unmodified /repo/src/awkward on the akshim emulation of awkward._ext) are pure
and fail only with ordinary exceptions.

case = {"part": "python", "desc": <valid description>, "pyop": {"f": name, ...}}
oracle: the call returns or raises a Python exception; every buffer of the operand is byte-identical afterwards and the operand reads
back with the value it had before; the result (if an array) can be walked with ak.to_list and printed.
Crashes are attributed by the runner (FORK_EACH)."""
import numpy as np
from hypothesis import strategies as st

from akgen import gen
from akmodel import core as M
from akshim import describe as D
from checks import known as K
from checks import pcommon as P
from vlib.common import Violation, HarnessError

CFG_P = gen.Cfg(max_depth=3, leaf_dtypes=("int64", "float64", "bool", "int32"), max_len=4, max_list=3, unknown=False, zero_field_records=False)

REDUCERS = ["sum", "prod", "min", "max", "any", "all", "count", "count_nonzero", "argmin", "argmax"]
PY_FAMILIES = ["num", "flatten", "reduce", "reduce", "sort", "argsort", "pad_none", "pad_none", "is_none", "combinations", "local_index",
               "to_list", "to_json", "ufunc_add", "ufunc_neg", "ufunc_self", "concatenate", "zip", "getitem", "values_astype", "firsts", "singletons",
               "mask", "copy", "to_buffers", "ravel", "str", "type", "cartesian", "with_field", "zeros_like", "broadcast_arrays", "where"]


@st.composite
def py_axis(draw, T):
    mn, mx = M.minmax_depth(T)
    return draw(st.sampled_from([0, 1, -1, mx - 1, -mx, mx, mn - 1, 2, -2]))


@st.composite
def py_op(draw, T, vals):
    f = draw(st.sampled_from(PY_FAMILIES))
    n = len(vals)
    if f in ("num", "local_index", "firsts", "singletons"):
        return {"f": f, "axis": draw(py_axis(T))}
    if f == "flatten":
        return {"f": f, "axis": draw(st.one_of(st.none(), py_axis(T)))}
    if f == "reduce":
        return {"f": f, "name": draw(st.sampled_from(REDUCERS)), "axis": draw(st.one_of(st.none(), py_axis(T))), "keepdims": draw(st.booleans()),
                "mask_identity": draw(st.booleans())}
    if f in ("sort", "argsort"):
        return {"f": f, "axis": draw(py_axis(T)), "ascending": draw(st.booleans()), "stable": draw(st.booleans())}
    if f == "pad_none":
        return {"f": f, "target": draw(st.sampled_from([0, 1, 2, 5, n])), "axis": draw(py_axis(T)), "clip": draw(st.booleans())}
    if f in ("combinations",):
        return {"f": f, "n": draw(st.sampled_from([0, 1, 2, 3])), "axis": draw(py_axis(T)), "replacement": draw(st.booleans())}
    if f == "getitem":
        b = st.one_of(st.none(), st.integers(-n - 2, n + 2))
        return {"f": f, "start": draw(b), "stop": draw(b), "step": draw(st.sampled_from([None, 1, 2, -1]))}
    if f == "values_astype":
        return {"f": f, "to": draw(st.sampled_from(["float64", "int64", "float32", "int8", "bool"]))}
    if f == "concatenate":
        return {"f": f, "axis": draw(st.sampled_from([0, 0, 1, -1]))}
    if f == "cartesian":
        return {"f": f, "axis": draw(st.sampled_from([0, 1, -1]))}
    return {"f": f}


@st.composite
def python_case(draw):
    T = draw(gen.types(CFG_P))
    vals = draw(gen.values(T, CFG_P, n=draw(st.sampled_from([0, 1, 2, 3, CFG_P.max_len]))))
    desc = draw(gen.encode(T, vals, CFG_P))
    return {"part": "python", "desc": desc, "pyop": draw(py_op(T, vals))}


def catalogue_spec(op):
    """the tier-L operation a Python-level call ends in, for the shared crash exclusions (checks.known)"""
    f = op["f"]
    if f == "reduce" and op["axis"] is not None:
        return {"op": "reduce", "name": op["name"], "axis": op["axis"], "mask": op["mask_identity"], "keepdims": op["keepdims"]}
    if f in ("sort", "argsort"):
        return {"op": f, "axis": op["axis"], "ascending": op["ascending"], "stable": op["stable"]}
    if f in ("num", "flatten") and op.get("axis") is not None:
        return {"op": f, "axis": op["axis"]}
    if f == "local_index":
        return {"op": "localindex", "axis": op["axis"]}
    if f == "pad_none":
        return {"op": "rpad_and_clip" if op["clip"] else "rpad", "target": op["target"], "axis": op["axis"]}
    if f == "combinations":
        return {"op": "combinations", "n": op["n"], "replacement": op["replacement"], "axis": op["axis"]}
    return {"op": "python:" + f}


def apply_py(A, arr, op):
    f = op["f"]
    if f == "num":
        return A.num(arr, axis=op["axis"])
    if f == "flatten":
        return A.flatten(arr, axis=op["axis"])
    if f == "reduce":
        kw = {"axis": op["axis"], "keepdims": op["keepdims"], "mask_identity": op["mask_identity"]}
        return getattr(A, op["name"])(arr, **kw)
    if f == "sort":
        return A.sort(arr, axis=op["axis"], ascending=op["ascending"], stable=op["stable"])
    if f == "argsort":
        return A.argsort(arr, axis=op["axis"], ascending=op["ascending"], stable=op["stable"])
    if f == "pad_none":
        return A.pad_none(arr, op["target"], axis=op["axis"], clip=op["clip"])
    if f == "is_none":
        return A.is_none(arr)
    if f == "combinations":
        return A.combinations(arr, op["n"], replacement=op["replacement"], axis=op["axis"])
    if f == "cartesian":
        return A.cartesian([arr, arr], axis=op["axis"])
    if f == "local_index":
        return A.local_index(arr, axis=op["axis"])
    if f == "to_list":
        return A.to_list(arr)
    if f == "to_json":
        return A.to_json(arr)
    if f == "ufunc_add":
        return arr + 1
    if f == "ufunc_neg":
        return np.negative(arr)
    if f == "ufunc_self":
        return np.add(arr, arr)
    if f == "concatenate":
        return A.concatenate([arr, arr], axis=op["axis"])
    if f == "zip":
        return A.zip({"a": arr, "b": arr}, depth_limit=1)
    if f == "getitem":
        return arr[op["start"]:op["stop"]:op["step"]]
    if f == "values_astype":
        return A.values_astype(arr, op["to"])
    if f == "firsts":
        return A.firsts(arr, axis=op["axis"])
    if f == "singletons":
        return A.singletons(arr)
    if f == "mask":
        return A.mask(arr, A.is_none(arr))
    if f == "copy":
        return A.copy(arr)
    if f == "to_buffers":
        form, length, container = A.to_buffers(arr)
        return A.from_buffers(form, length, container)
    if f == "ravel":
        return A.ravel(arr)
    if f == "str":
        return str(arr) + repr(arr)
    if f == "type":
        return str(A.type(arr))
    if f == "with_field":
        return A.with_field(arr, arr, "extra")
    if f == "zeros_like":
        return A.zeros_like(arr)
    if f == "broadcast_arrays":
        return A.broadcast_arrays(arr, 1)
    if f == "where":
        return A.where(A.is_none(arr), arr, arr)
    raise HarnessError("unknown python op " + f)


def lib_outcome(fn):
    """like pcommon.outcome, but an AttributeError / NotImplementedError raised *inside the library's own Python files* (e.g.
    highlevel.__getattr__ 'no field named ...') is an ordinary exception of the code under test; only those coming from the
    emulation (akshim) or the harness propagate as harness errors"""
    import traceback
    from vlib.common import REPO
    try:
        return P.outcome(fn)
    except (AttributeError, NotImplementedError) as e:
        frames = traceback.extract_tb(e.__traceback__)
        inner = frames[-1].filename if frames else ""
        if inner.startswith(REPO):
            return (type(e).__name__, str(e))
        raise


def _value(lay):
    try:
        return M.decode(D.describe(lay))
    except M.Invalid:
        return None


def _same(a, b):
    if a is None or b is None:
        return a is None and b is None
    return a[0] == b[0] and M.same_value(a[1], b[1])


def run_python(case):
    A = P.ak()
    desc, op = case["desc"], case["pyop"]
    label = "python:" + op["f"] + (":" + op["name"] if op["f"] == "reduce" else "")
    buffers = []
    arr = P.harray(desc, buffers)
    snaps = P.snapshot(buffers)
    before = _value(arr.layout)
    if before is None or not _same(before, M.decode(desc)):
        raise HarnessError("a freshly built layout does not read back as the description's value")
    try:
        kind, res = lib_outcome(lambda: apply_py(A, arr, op))
    except NotImplementedError as e:
        if "not available in the /verif emulation" in str(e):
            return {"discarded": "the call needs a part of awkward._ext that the emulation does not provide (ArrayBuilder, ...)"}
        raise
    P.check_purity(buffers, snaps, label)
    tags = ["part:python", "pyop:" + op["f"], "pyoutcome:" + ("ok" if kind == "ok" else "raised")]
    if kind == "ok" and isinstance(res, (A.Array, A.Record)):
        k2, _ = lib_outcome(lambda: (A.to_list(res), str(res)))
        tags.append("pyresult_walk:" + ("ok" if k2 == "ok" else "raised"))
    after = _value(arr.layout)
    if not _same(before, after):
        raise Violation("value_changed:" + label, "the operand reads back differently after %s" % label,
                        expected=M.jsonable(before[1]), observed=M.jsonable(after[1]) if after else "unevaluable", clause="C12-purity")
    P.check_purity(buffers, snaps, label + " (reading the result)")
    nbuf = sum(1 for s in snaps if len(s))
    return {"tags": tags, "nontrivial": kind == "ok" and nbuf > 0, "sample_class": "python:" + op["f"]}


def pre_exclude_python(case):
    spec = catalogue_spec(case["pyop"])
    if spec["op"].startswith("python:"):
        return None
    return K.pre_exclude(spec, case["desc"])
