"""C11 - the validity check is exact, and operations on valid arrays return valid arrays (tier L)."""
import os

from hypothesis import strategies as st

from akgen import gen, invalidate as inv
from akmodel import core as M
from akmodel import valid as V
from akshim import describe as D
from checks import ops, known as K
from checks.common import run_checked
from vlib.common import Violation, HarnessError

ID = "C11"
MANIFEST = {
    "technique": "property-based testing (Hypothesis): generated valid layouts, single-rule invalidations and arbitrary integer perturbations vs an independent validity model; closure by re-checking every operation's result",
    "level_text": "Generated-input exploration in four parts: (1) every layout the type-directed generator builds (valid by construction, all node classes/widths/encodings) must pass validityerror; (2) breaking exactly one documented rule at a random node and depth must be reported (or refused by the constructor); (3) after an arbitrary small change of one stored integer the library's verdict must equal that of akmodel.valid, transcribed from the documented rules; (4) closure: the result of every catalogue operation on a valid layout must pass the check again. Held on everything generated outside the recorded known findings.",
    "level_note": "Trusted: akmodel.valid (the documented rules as I read them), the generator's validity by construction (cross-checked by part 1), the /verif bridge. categorical parameters and identities are not generated.",
}
RULE = ("case = valid description (part 1), description with one documented rule broken at a random node (part 2), description with one stored integer perturbed (part 3), or valid description + operation (part 4); "
        "non-trivial = the checked or broken rule sits below the root (depth >= 1) or, for closure, the operation returned a non-empty array; distinct by hash of the case")
ASSUMPTIONS = ["constructor refusals (std::invalid_argument) count as the rule being enforced, tallied separately"]
PLAN = {
    "quick": [{"flavour": "plain", "cases": 30000}, {"flavour": "san", "cases": 4000}],
    "thorough": [{"flavour": "plain", "cases": 900000}, {"flavour": "san", "cases": 300000}],
}
WALL_CAP = {"quick": 900, "thorough": 3300}
FORK_EACH = True
KNOWN = K.PREDICATES
CFG = gen.Cfg(max_depth=3, leaf_dtypes=("int64", "float64", "bool", "uint8", "int32"))
FAMILIES = os.environ["VERIF_FAMILIES"].split(",") if os.environ.get("VERIF_FAMILIES") else None


@st.composite
def strategy_(draw):
    T = draw(gen.types(CFG))
    vals = draw(gen.values(T, CFG))
    desc = draw(gen.encode(T, vals, CFG))
    part = draw(st.sampled_from(["valid", "invalidate", "invalidate", "perturb", "perturb", "closure", "closure", "closure"]))
    if part == "invalidate":
        r = draw(inv.invalidate(desc))
        if r is None:
            part = "valid"
        else:
            return {"part": part, "desc": r["desc"], "rule": r["rule"], "depth": r["depth"]}
    if part == "perturb":
        r = draw(inv.perturb(desc))
        if r is None:
            part = "valid"
        else:
            return {"part": part, "desc": r["desc"], "rule": r["rule"], "depth": r["depth"]}
    if part == "closure":
        return {"part": part, "desc": desc, "spec": draw(ops.draw_op(T, vals, FAMILIES))}
    return {"part": "valid", "desc": desc}


def strategy(tier):
    return strategy_()


def setup(flavour, tier):
    pass


def case_label(case):
    if case["part"] == "closure":
        from checks.modelcheck import region, oplabel
        T, vals = M.decode(case["desc"])
        return oplabel(case["spec"]) + "|" + region(T, vals, case["spec"])
    return case["part"] + ":" + case.get("rule", "")


def pre_exclude(case):
    if case["part"] == "closure":
        return K.pre_exclude(case["spec"], case["desc"])
    return None


def library_verdict(desc):
    """('refused', msg) if a constructor raises, else ('ok'|'invalid', message)"""
    try:
        lay = D.build(desc)
    except ValueError as e:
        return "refused", str(e)
    err = lay.validityerror()
    return ("ok", "") if err is None else ("invalid", err)


def run_case(case):
    part, desc = case["part"], case["desc"]
    if part == "valid":
        if V.valid(desc) is not None:
            raise HarnessError("generator produced a description the model calls invalid: %s" % V.valid(desc))
        verdict, msg = library_verdict(desc)
        if verdict != "ok":
            raise Violation("rejected_valid:" + msg.split("): ")[-1].split("\n")[0][:50], "a valid array is rejected: " + msg[:300], observed=msg)
        return {"nontrivial": "content" in desc or "contents" in desc, "tags": ["part:valid"], "sample_class": "valid"}
    if part in ("invalidate", "perturb"):
        mv = V.valid(desc)
        mc = V.constructible(desc) if all(True for _ in [0]) else None
        if part == "invalidate" and mv is None and mc is None and not _any_unconstructible(desc):
            raise HarnessError("invalidate(%s) produced a description the model calls valid" % case["rule"])
        verdict, msg = library_verdict(desc)
        expect_invalid = (mv is not None) or _any_unconstructible(desc)
        if expect_invalid and verdict == "ok":
            raise Violation("accepted_invalid:" + case["rule"], "an array breaking a documented rule (%s: %s) passes the validity check" % (case["rule"], mv), expected=mv, observed="valid")
        if not expect_invalid and verdict != "ok":
            raise Violation("rejected_valid:" + case["rule"], "an array obeying every documented rule is rejected (%s): %s" % (case["rule"], msg[:300]), observed=msg)
        return {"nontrivial": case["depth"] >= 1, "tags": ["part:" + part, "rule:" + case["rule"], "verdict:" + verdict, "model_invalid:%s" % expect_invalid],
                "sample_class": case["rule"]}
    if part == "closure":
        from checks.modelcheck import region, oplabel
        T, vals = M.decode(desc)
        spec = case["spec"]
        op = oplabel(spec) + "|" + region(T, vals, spec)
        if spec["op"] == "reduce" and ("'string'" in repr(T) or "'bytes'" in repr(T)):
            # the same restriction as C02, C03, C12 and C18: reducers are defined on numeric leaves (on strings the library reduces the
            # characters, through the non-local machinery whose defects are recorded under C03)
            return {"discarded": "reducers are defined on numeric leaves, not on strings"}
        try:
            kind, res, tv = run_checked(desc, spec)
        except Violation as v:
            kind_, _, rest = v.bucket.partition(":")
            detail = rest.split(":", 1)[1] if ":" in rest else ""
            v.bucket = "%s:%s" % (kind_, op) + ("#" + detail if detail else "")
            raise
        nonempty = tv is not None and tv[1] not in (None, [])
        return {"nontrivial": kind == "ok" and nonempty, "tags": ["part:closure", "op:" + spec["op"], "outcome:" + kind], "sample_class": "closure:" + spec["op"]}
    raise HarnessError("unknown part")


def _any_unconstructible(d):
    if V.constructible(d) is not None:
        return True
    if "content" in d and _any_unconstructible(d["content"]):
        return True
    return any(_any_unconstructible(c) for c in d.get("contents", []))
