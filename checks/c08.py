"""C08 - concatenation keeps every element; merging, simplifying and values_astype never change a value (tier L)."""
import numpy as np
from hypothesis import strategies as st

from akgen import gen
from akmodel import core as M
from akmodel import merge as MM
from akshim import describe as D
from akshim import layout as L
from checks import known as K
from checks import ops
from checks import pcommon as P
from checks.common import closure_kind, typestr
from vlib.common import Violation, HarnessError

ID = "C08"
MANIFEST = {
    "technique": "model-based property testing (Hypothesis): list-concatenation / NumPy-promotion reference model vs the real ak.concatenate (axis 0 and deeper) and ak.values_astype of /repo's Python layer running on the awkward._ext emulation, and vs Content::mergeable/merge/mergemany/merge_as_union, simplify_uniontype/simplify_optiontype and numbers_to_type through the C bridge, on generated physical encodings; ASan/UBSan twin",
    "level_text": "Generated-input exploration. (a) tuples of 2-4 arrays whose types are equal, similar (other numeric leaf dtype, option-ness, regular vs variable lists, permuted record fields) or different, each under a random physical encoding (all list/option/union/indexed node classes, 32/U32/64-bit indexes, non-zero offsets, strided and n-d buffers, empty arrays, EmptyArray); operations ak.concatenate(axis=0, mergebool) on layouts or ak.Arrays, and mergeable, merge (both orders), mergemany, merge_as_union. The result must be valid, must read back as the operands' elements in order, each unchanged up to numpy's cast into the dtype the result has at that position (a bool may only become a number when mergebool is set), must have numpy.result_type's leaf dtypes wherever the operands were merged into one type, must not be a union when all operands have identical types up to the numeric dtype nor a union with two such members, and no input buffer may change. (b) ak.concatenate(axis=1|2|-1) on 2-3 arrays of lists with equal structure above the axis and equal/similar/different element types: same list structure above the axis, every list is the concatenation of the corresponding lists, same element oracle as (a). (c) unions/options nested one level deep built directly (any node class inside any other) and simplified: same values up to the numeric cast, valid result, no two members identical up to dtype. (d) numbers_to_type / ak.values_astype (dtype given as name, numpy.dtype or scalar type) over all 13x13 numeric dtype pairs must equal numpy.astype on every leaf whose cast is defined in C, structure and missing values untouched. Held on everything generated outside the recorded known findings.",
    "level_note": "Trusted: akmodel.merge (NumPy itself is the reference for promotion and casts), akmodel.decode, the /verif bridge and the awkward._ext emulation (a re-statement of the pybind11 binding, which cannot be compiled here). Not exercised: scalars / Python lists as operands of ak.concatenate, option-type lists at the concatenation axis (the library treats a missing list as empty; the statement is silent), broadcasting of length-1 operands at axis>0, partitioned and virtual arrays, datetime64/timedelta64 (the bridge cannot build them), records without fields (excluded from generation: the known finding zero_field_records of C02/C10 corrupts memory in merge). Float-to-integer casts of NaN/inf/out-of-range values are undefined in C and are discarded (counted).",
}
RULE = ("case = one of: (2-4 physical descriptions, operation in {ak.concatenate axis 0, merge, mergemany, merge_as_union, mergeable}, mergebool, layouts or ak.Arrays); "
        "(2-3 descriptions of lists with equal structure above the axis, axis in {1, 2, -1}, mergebool); "
        "(a directly built union-of-unions/mergeable-members or option-over-option/indexed description, simplify arguments); "
        "(a description, target dtype, api in {numbers_to_type, ak.values_astype with name/dtype/type}). Expected = akmodel.merge on the decoded values. "
        "non-trivial = the operation returned data and (operand node classes differ, or a 32-bit/U32 index is involved, or the result type is a union/option); "
        "for astype: a non-empty leaf of another dtype was cast; distinct by hash of the case")
ASSUMPTIONS = ["for three or more numeric operands the leaf dtype may be numpy.result_type over all of them or the left-to-right pairwise promotion "
               "(NumPy's promotion is not associative; the statement quantifies over dtype pairs); both are tallied",
               "regular and variable-length list types are compared as 'list' (merging two regular arrays may give a variable-length list type)",
               "mergeable() is not required to be symmetric (nothing documents it); asymmetry is only tallied",
               "mergemany is called only on operands the library itself declares pairwise mergeable (ak.concatenate only asks each operand's predecessor: "
               "known finding concatenate_mergeable_not_transitive)",
               "simplify is documented to work one level deep: inputs are nested exactly one level",
               "when the operands are not merged into one type, 'unchanged up to the numeric cast' means: numpy's cast into the dtype of the union member the element landed in"]
PLAN = {
    "quick": [{"flavour": "plain", "cases": 20000}, {"flavour": "san", "cases": 3000}],
    "thorough": [{"flavour": "plain", "cases": 200000}, {"flavour": "san", "cases": 40000}],
}
WALL_CAP = {"quick": 900, "thorough": 3300}
FORK_EACH = False

LEAVES = ("int64", "float64", "bool", "int32", "uint8", "float32", "int64", "float64", "int8", "int16", "uint16", "uint32", "uint64",
          "complex64", "complex128")
CFG = gen.Cfg(zero_field_records=False, max_depth=2, leaf_dtypes=LEAVES, extremes=True, nan=True, unknown=True, max_len=5, max_list=3)
CFG3 = gen.Cfg(zero_field_records=False, max_depth=3, leaf_dtypes=LEAVES[:8], extremes=True, nan=False, unknown=True, max_len=4, max_list=3)
NUMERIC = MM.NUMERIC
OPS = ["concatenate", "concatenate", "concatenate", "merge", "merge", "mergemany", "merge_as_union", "mergeable"]
OPTION_CLASSES = ["IndexedOptionArray32", "IndexedOptionArray64", "ByteMaskedArray", "BitMaskedArray", "UnmaskedArray"]


# ------------------------------------------------------------------ generation
@st.composite
def perturb(draw, T):
    """a type 'similar' to T: other numeric leaf dtypes, option-ness toggled, regular <-> variable lists"""
    k = T[0]
    if k == "option":
        inner = draw(perturb(T[1]))
        return inner if draw(st.integers(0, 3)) == 0 or inner[0] == "option" else ["option", inner]
    if k == "prim":
        if T[1] == "bool":
            out = ["prim", "bool" if draw(st.integers(0, 3)) > 0 else draw(st.sampled_from(NUMERIC))]
        else:
            out = ["prim", draw(st.sampled_from(NUMERIC[1:] + ["bool"])) if draw(st.integers(0, 7)) == 0 else draw(st.sampled_from(NUMERIC[1:]))]
    elif k == "list":
        inner = draw(perturb(T[1]))
        out = ["regular", inner, draw(st.sampled_from([0, 1, 2, 2, 3]))] if draw(st.integers(0, 4)) == 0 else ["list", inner]
    elif k == "regular":
        inner = draw(perturb(T[1]))
        r = draw(st.integers(0, 5))
        out = ["list", inner] if r == 0 else ["regular", inner, draw(st.sampled_from([0, 1, 2, 3])) if r == 1 else T[2]]
    elif k == "record":
        fields = [[nm, draw(perturb(ft))] for nm, ft in T[1]]
        if not T[2] and len(fields) > 1 and draw(st.integers(0, 5)) == 0:
            fields = list(draw(st.permutations(fields)))
        out = ["record", fields, T[2], T[3]]
    else:
        out = T
    if out[0] not in ("option", "unknown") and draw(st.integers(0, 5)) == 0:
        out = ["option", out]
    return out


@st.composite
def one_array(draw, T, cfg):
    vals = draw(gen.values(T, cfg))
    if draw(st.integers(0, 4)) == 0:
        return gen.canonical(T, vals)
    return draw(gen.encode(T, vals, cfg))


@st.composite
def concat_case(draw):
    cfg = CFG if draw(st.integers(0, 3)) > 0 else CFG3
    k = draw(st.sampled_from([2, 2, 2, 3, 3, 4]))
    mode = draw(st.sampled_from(["equal", "equal", "similar", "similar", "similar", "different", "mixed"]))
    T0 = draw(gen.types(cfg))
    arrays = []
    for i in range(k):
        if draw(st.integers(0, 11)) == 0:
            arrays.append({"class": "EmptyArray"})
            continue
        m = mode if mode != "mixed" else draw(st.sampled_from(["equal", "similar", "different"]))
        if i == 0 or m == "equal":
            T = T0
        elif m == "similar":
            T = draw(perturb(T0))
        else:
            T = draw(gen.types(cfg))
        arrays.append(draw(one_array(T, cfg)))
    return {"mode": "concat", "arrays": arrays, "op": draw(st.sampled_from(OPS)), "mergebool": draw(st.booleans()),
            "highlevel": draw(st.booleans())}


@st.composite
def union_case(draw):
    cfg = CFG
    k = draw(st.integers(2, 3))
    base = draw(gen.types(cfg))
    members = []
    for _ in range(k):
        how = draw(st.sampled_from(["fresh", "same", "similar", "union", "union"]))
        if how == "same":
            T = base
        elif how == "similar":
            T = draw(perturb(base))
        elif how == "union":
            a, b = draw(gen.types(cfg)), draw(gen.types(cfg))
            a, b = M.strip_option(a), M.strip_option(b)
            T = a if (gen.mergekey(a) == gen.mergekey(b) or a[0] == "union" or b[0] == "union") else ["union", [a, b]]
        else:
            T = draw(gen.types(cfg))
        vals = draw(gen.values(T, cfg))
        members.append((vals, draw(gen.encode(T, vals, cfg))))
    usable = [i for i, (vals, _) in enumerate(members) if len(vals) > 0]
    n = draw(st.integers(0, 6)) if usable else 0
    tags, index = [], []
    for _ in range(n):
        t = draw(st.sampled_from(usable))
        tags.append(t)
        index.append(draw(st.integers(0, len(members[t][0]) - 1)))
    w = draw(st.sampled_from(["32", "U32", "64"]))
    desc = {"class": "UnionArray8_" + w, "tags": tags, "index": index, "contents": [d for _, d in members]}
    return {"mode": "simplify", "desc": desc, "merge": draw(st.sampled_from([True, True, True, False])), "mergebool": draw(st.booleans())}


@st.composite
def option_case(draw):
    cfg = CFG
    T = draw(gen.types(cfg))
    kind = draw(st.sampled_from(["option", "option", "indexed", "plain"]))
    if kind == "option" and T[0] != "unknown":
        Tin = M.option_of(T)
        vals = draw(gen.values(Tin, cfg))
        inner = draw(gen.encode(Tin, vals, cfg))
    elif kind == "indexed" and T[0] not in ("unknown", "option"):
        storage = draw(gen.values(T, cfg))
        m = len(storage)
        idx = [draw(st.integers(0, m - 1)) for _ in range(draw(st.integers(0, 5)))] if m > 0 else []
        inner = {"class": "IndexedArray" + draw(st.sampled_from(["32", "U32", "64"])), "index": idx,
                 "content": draw(gen.encode(T, storage, cfg, allow_indexed=False))}
        vals = [storage[i] for i in idx]
    else:
        vals = draw(gen.values(T, cfg))
        inner = draw(gen.encode(T, vals, cfg))
    m = len(vals)
    cls = draw(st.sampled_from(OPTION_CLASSES))
    if cls.startswith("IndexedOptionArray"):
        n = draw(st.integers(0, 6))
        index = [draw(st.sampled_from([-1, -1, -3])) if (m == 0 or draw(st.integers(0, 3)) == 0) else draw(st.integers(0, m - 1)) for _ in range(n)]
        desc = {"class": cls, "index": index, "content": inner}
    elif cls == "UnmaskedArray":
        desc = {"class": cls, "content": inner}
    else:
        n = draw(st.integers(0, m))
        vw = draw(st.booleans())
        valid = [draw(st.integers(0, 3)) > 0 for _ in range(n)]
        if cls == "ByteMaskedArray":
            desc = {"class": cls, "mask": [int(v == vw) * draw(st.sampled_from([1, 1, 2, -1])) for v in valid], "valid_when": vw, "content": inner}
        else:
            lsb = draw(st.booleans())
            nbytes = (n + 7) // 8
            bits = [int(v == vw) for v in valid] + [draw(st.integers(0, 1)) for _ in range(nbytes * 8 - n)]
            mask = []
            for b in range(nbytes):
                byte = 0
                for j in range(8):
                    if bits[b * 8 + j]:
                        byte |= (1 << j) if lsb else (1 << (7 - j))
                mask.append(byte)
            desc = {"class": cls, "mask": mask, "valid_when": vw, "length": n, "lsb_order": lsb, "content": inner}
    return {"mode": "simplify", "desc": desc, "merge": True, "mergebool": False}


@st.composite
def astype_case(draw):
    cfg = CFG if draw(st.integers(0, 3)) > 0 else CFG3
    T = draw(gen.types(cfg))
    return {"mode": "astype", "desc": draw(one_array(T, cfg)), "to": draw(st.sampled_from(NUMERIC)),
            "api": draw(st.sampled_from(["numbers_to_type", "values_astype:name", "values_astype:dtype", "values_astype:type"]))}


CFGE = gen.Cfg(zero_field_records=False, max_depth=1, leaf_dtypes=LEAVES, extremes=True, nan=True, unknown=True, max_len=3, max_list=2)


@st.composite
def deep_case(draw):
    """2-3 arrays of lists with the same structure above `axis` (1 or 2) and equal / similar / different element types"""
    k = draw(st.sampled_from([2, 2, 3]))
    axis = draw(st.sampled_from([1, 1, 1, 2]))
    mode = draw(st.sampled_from(["equal", "similar", "similar", "different", "mixed"]))
    E0 = draw(gen.types(CFGE, top=False))
    n = draw(st.sampled_from([0, 1, 2, 2, 3, 4]))
    counts = [draw(st.sampled_from([0, 1, 1, 2, 3])) for _ in range(n)]
    arrays, etypes = [], []
    for i in range(k):
        m = mode if mode != "mixed" else draw(st.sampled_from(["equal", "similar", "different"]))
        if i == 0 or m == "equal":
            E = E0
        elif m == "similar":
            E = draw(perturb(E0))
        else:
            E = draw(gen.types(CFGE, top=False))
        etypes.append(E)
        if axis == 1:
            T = ["list", E]
            vals = [draw(gen.values(E, CFGE)) for _ in range(n)]
        else:
            T = ["list", ["list", E]]
            vals = [[draw(gen.values(E, CFGE)) for _ in range(c)] for c in counts]
        arrays.append(gen.canonical(T, vals) if draw(st.integers(0, 4)) == 0 else draw(gen.encode(T, vals, CFG)))
    negative = all(E[0] == "prim" for E in etypes) and draw(st.integers(0, 3)) == 0
    return {"mode": "deep", "arrays": arrays, "axis": -1 if negative else axis, "posaxis": axis, "mergebool": draw(st.booleans()),
            "highlevel": draw(st.booleans())}


@st.composite
def _numeric_array(draw, dt):
    """a flat or singly nested array of the given numeric dtype, any encoding"""
    T = ["prim", dt]
    wrap = draw(st.sampled_from(["flat", "flat", "list", "option"]))
    if wrap == "list":
        T = ["list", T]
    elif wrap == "option":
        T = ["option", T]
    vals = draw(gen.values(T, CFG, n=draw(st.integers(1, 4))))
    return draw(gen.encode(T, vals, CFG))


@st.composite
def pair_case(draw):
    """every ordered pair of the 13 numeric dtypes, uniformly: promotion by concatenate/merge, or cast by values_astype"""
    a, b = draw(st.sampled_from(NUMERIC)), draw(st.sampled_from(NUMERIC))
    if draw(st.booleans()):
        return {"mode": "astype", "desc": draw(_numeric_array(a)), "to": b,
                "api": draw(st.sampled_from(["numbers_to_type", "values_astype:name", "values_astype:dtype", "values_astype:type"]))}
    arrays = [draw(_numeric_array(a)), draw(_numeric_array(b))]
    if draw(st.integers(0, 3)) == 0:
        arrays.append(draw(_numeric_array(draw(st.sampled_from(NUMERIC)))))
    return {"mode": "concat", "arrays": arrays, "op": draw(st.sampled_from(["concatenate", "merge", "mergemany"])), "mergebool": draw(st.booleans()),
            "highlevel": draw(st.booleans())}


def strategy(tier):
    return st.one_of(concat_case(), concat_case(), concat_case(), concat_case(), concat_case(), concat_case(),
                     deep_case(), deep_case(), union_case(), option_case(), astype_case(), pair_case(), pair_case())


def setup(flavour, tier):
    P.ak()


# ------------------------------------------------------------------ labels, known findings
FAMILY = {"NumpyArray": "numpy", "EmptyArray": "empty", "RegularArray": "regular", "RecordArray": "record", "ByteMaskedArray": "option",
          "BitMaskedArray": "option", "UnmaskedArray": "option"}


def family(d):
    cls = d["class"]
    params = d.get("parameters") or {}
    if params.get("__array__") in ("string", "bytestring"):
        return "string"
    if cls == "NumpyArray" and len(d["shape"]) > 1:
        return "numpy_nd"
    if cls in FAMILY:
        return FAMILY[cls]
    if cls.startswith("IndexedOption"):
        return "option"
    if cls.startswith("Indexed"):
        return "indexed"
    if cls.startswith("Union"):
        return "union"
    return "list"


def descs_of(case):
    """the operand descriptions of a case (the members of a directly built union count as operands)"""
    if case["mode"] in ("concat", "deep"):
        return list(case["arrays"])
    if case["mode"] == "simplify" and case["desc"]["class"].startswith("UnionArray"):
        return list(case["desc"]["contents"])
    return [case["desc"]]


def region(case):
    return "+".join(sorted(set(family(d) for d in descs_of(case))))


def case_label(case):
    if case["mode"] == "concat":
        return case["op"] + "|" + region(case)
    if case["mode"] == "deep":
        return "concatenate_axis%d|%s" % (case["posaxis"], region(case))
    if case["mode"] == "simplify":
        d = case["desc"]
        inner = "+".join(sorted(set(family(c) for c in d.get("contents", [d.get("content")]))))
        return "simplify|" + family(d) + ">" + inner
    return "numbers_to_type|" + case["to"]


def _shared(name):
    fn = K.PREDICATES[name]

    def pred(case, vio):
        return any(fn({"desc": d, "spec": {}}, vio) for d in descs_of(case))
    return pred


KNOWN = {name: _shared(name) for name in ("masked_lazy_carry",)}


def known(name):
    def deco(fn):
        KNOWN[name] = fn
        return fn
    return deco


WRAPPERS = ("IndexedArray", "IndexedOptionArray", "ByteMaskedArray", "BitMaskedArray", "UnmaskedArray")


def _kind(vio):
    return vio.get("bucket", "").split(":")[0]


def _is_wrapper(n):
    return n["class"].startswith(WRAPPERS)


def _marked(n):
    p = n.get("parameters") or {}
    return p.get("__array__") in ("string", "bytestring") or p.get("__record__") is not None


def wrapper_hides_parameters(d):
    """an indexed/option node that does not itself carry the __array__/__record__ parameter of the string / named record below it"""
    def hit(n):
        if not _is_wrapper(n) or _marked(n):
            return False
        c = n["content"]
        while _is_wrapper(c) and not _marked(c):
            c = c["content"]
        return _marked(c)
    return K.any_node(d, hit)


def _has_node(d, pred):
    return K.any_node(d, pred)


def _contains_marked(d):
    return _has_node(d, _marked)


def _type_has_unknown(T):
    return "unknown" in repr(T)


@known("merge_parameters_compared_first")
def _(case, vio):
    """mergeable() compares the __array__/__record__ parameters of the two top nodes before it looks through indexed/option
    wrappers, EmptyArray or UnionArray: strings / named records are then 'not mergeable' with the same type behind a
    wrapper, with an unknown-type array or with a union (needless or nested unions follow)"""
    if _kind(vio) not in ("needless_union", "unmergeable", "closure"):
        return False
    if _kind(vio) == "closure" and "unsimplified" not in vio.get("bucket", ""):
        return False
    ds = descs_of(case)
    if any(wrapper_hides_parameters(d) for d in ds):
        return True
    if case["mode"] == "deep" and any(_has_node(d, lambda n: (n.get("parameters") or {}).get("__record__") is not None) for d in ds):
        return True    # flattening a list of records carries them lazily: the library itself makes the IndexedArray64 wrapper
    marked = any(_contains_marked(d) for d in ds)
    if marked and case["mode"] == "concat" and case.get("op") == "concatenate" and len(ds) >= 3:
        return True    # ak.concatenate has made a UnionArray of the first operands itself by the time it meets the marked one
    neutral = any(_has_node(d, lambda n: n["class"] == "EmptyArray" or n["class"].startswith("UnionArray")) for d in ds)
    return marked and neutral


@known("merge_numpy_nd_vs_regular")
def _(case, vio):
    ds = descs_of(case)
    nd = [i for i, d in enumerate(ds) if K.any_node(d, lambda n: n["class"] == "NumpyArray" and len(n["shape"]) > 1)]
    other = [i for i, d in enumerate(ds) if K.any_node(d, lambda n: n["class"] == "RegularArray" or n["class"].startswith("List"))]
    return _kind(vio) in ("needless_union", "unmergeable") and bool(nd) and bool(set(other) - set(nd[:1]) or len(nd) > 1 and other)


def union_behind_wrapper(d):
    """an indexed / option node whose content (through further wrappers) is a UnionArray"""
    def hit(n):
        if not _is_wrapper(n):
            return False
        c = n["content"]
        while _is_wrapper(c):
            c = c["content"]
        return c["class"].startswith("UnionArray")
    return K.any_node(d, hit)


@known("union_behind_wrapper_not_simplified")
def _(case, vio):
    """simplify_uniontype and the final simplify of ak.concatenate only look at a UnionArray that is the top node: a
    union below an IndexedArray / option node keeps mergeable members apart"""
    return _kind(vio) == "needless_union" and any(union_behind_wrapper(d) for d in descs_of(case))


@known("concatenate_mergeable_not_transitive")
def _(case, vio):
    """ak.concatenate tests each array only against its predecessor; an array whose type contains 'unknown' is mergeable
    with both neighbours although these are not mergeable with each other: ValueError, False turned into 0, or needless unions"""
    if case["mode"] != "concat" or case.get("op") != "concatenate" or len(case["arrays"]) < 3:
        return False
    if _kind(vio) not in ("refused", "value", "needless_union", "closure"):
        return False
    interior = case["arrays"][1:-1]
    return any(_type_has_unknown(M.decode(d)[0]) for d in interior)


@known("astype_complex_to_bool_ignores_imaginary")
def _(case, vio):
    """numbers_to_type('bool') on complex data looks at the real part only (numpy: non-zero real or imaginary part)"""
    if case["mode"] != "astype" or case["to"] != "bool" or _kind(vio) != "value":
        return False

    def hit(n):
        return n["class"] == "NumpyArray" and n["dtype"].startswith("complex") and any(
            re_ == 0 and im_ != 0 for re_, im_ in _complex_pairs(n["data"]))
    return K.any_node(case["desc"], hit)


def _complex_pairs(data):
    out = []
    for x in data:
        if isinstance(x, list) and len(x) == 2 and not isinstance(x[0], list):
            out.append((x[0], x[1]))
        elif isinstance(x, list):
            out.extend(_complex_pairs(x))
    return out


def pre_exclude(case):
    return None


# ------------------------------------------------------------------ execution helpers
class Run(object):
    """one case's library session: builds the inputs, snapshots their buffers, classifies outcomes"""

    def __init__(self, case, label):
        self.label = label
        self.buffers = []
        self.layouts = [D.build(d, self.buffers) for d in (case["arrays"] if case["mode"] in ("concat", "deep") else [case["desc"]])]
        self.snaps = [b.tobytes() for b in self.buffers]

    def call(self, what, fn, must_succeed=None, python=False):
        """returns ('ok', result) or (errorkind, message); raises Violation for non-documented exceptions and, when
        must_succeed gives a reason, for refusals.  python=True: fn runs /repo's Python layer (tier P)"""
        kind, res = P.outcome(fn) if python else ops.outcome(fn)
        if kind == "OtherNativeError":
            raise Violation("exception:" + self.label + "#" + what, "non-documented C++ exception in %s: %s" % (what, str(res)[:200]), clause="C12-exception")
        if kind != "ok" and must_succeed is not None:
            raise Violation("refused:" + self.label + "#" + what, "%s raised %s although %s: %s" % (what, kind, must_succeed, str(res)[:300]),
                            observed=[kind, str(res)[:300]])
        return kind, res

    def purity(self):
        for b, s in zip(self.buffers, self.snaps):
            if b.tobytes() != s:
                raise Violation("purity:" + self.label, "an input buffer was modified", clause="C12-purity")

    def read(self, res, what, closure=True):
        """(type, value) of a returned layout; closure violation if it is invalid"""
        if not isinstance(res, L.Content) or isinstance(res, L.Record):
            raise Violation("resultkind:" + self.label + "#" + what, "%s returned %r instead of an array" % (what, type(res).__name__))
        n = ops.outcome(lambda: len(res))
        if n[0] != "ok":
            raise Violation("closure:%s#%s:negative_length" % (self.label, what), "result of %s reports a negative length" % what, clause="C11-closure")
        if closure:
            err = res.validityerror()
            if err is not None:
                raise Violation("closure:%s#%s:%s" % (self.label, what, closure_kind(err)), "result of %s on valid arrays is invalid: %s" % (what, err[:300]),
                                observed=_safe_describe(res), clause="C11-closure")
        try:
            return D.value_of(res)
        except ValueError as e:
            if "__len__() should return >= 0" not in str(e):
                raise
            raise Violation("closure:%s#%s:negative_length" % (self.label, what), "a node inside the result of %s reports a negative length" % what,
                            clause="C11-closure")
        except M.Invalid as e:
            raise Violation("closure:%s#%s:unevaluable" % (self.label, what), "result of %s cannot be evaluated: %s" % (what, e),
                            observed=_safe_describe(res), clause="C11-closure")


def _safe_describe(res):
    try:
        return D.describe(res)
    except Exception as e:  # noqa: B902
        return "undescribable: %r" % (e,)


def is_uniontype(layout):
    return type(layout).__name__.startswith("UnionArray")


def ak_concatenate(run, case, axis):
    """the real ak.concatenate of /repo/src/awkward/operations/structure.py on the emulated awkward._ext (tier P)"""
    A = P.ak()
    args = [A.Array(x) for x in run.layouts] if case.get("highlevel") else list(run.layouts)
    res = run.call("concatenate", lambda: A.concatenate(args, axis=axis, mergebool=case["mergebool"]),
                   "ak.concatenate accepts any arrays%s" % ("" if axis == 0 else " of lists with equal structure above the axis"), python=True)[1]
    if not isinstance(res, A.Array):
        raise Violation("resultkind:" + run.label + "#concatenate", "ak.concatenate returned %r instead of an ak.Array" % type(res).__name__)
    return res.layout


def judge_merged(run, what, operands, Tr, Vr, mergebool, exact=False, require_single=None, members_distinct=True):
    """the oracle shared by merge / mergemany / the driver / simplify.
    operands: [(T, vals)] in order; (Tr, Vr): what the library returned.
    exact: no cast of any kind may have happened (merge_as_union, simplify without merging).
    require_single: reason why the result may not be a union (None: it may)."""
    types = [T for T, _ in operands]
    tags = []
    Tn = MM.normalize(Tr)
    Lall = MM.lenient_merge(types, mergebool)
    Lfold = MM.lenient_merge(types, mergebool, fold=True) if Lall is not None else None
    matched = None
    if not exact and Lall is not None:
        if Tn == MM.normalize(Lall):
            matched = Lall
            tags.append("promotion:numpy_result_type")
        elif Tn == MM.normalize(Lfold):
            matched = Lfold
            tags.append("promotion:pairwise_fold_differs_from_result_type")
    if matched is not None or exact:
        expected = MM.concatenate(operands, matched)
        ok = M.same_value(Vr, expected, strict_bool=True)
    else:
        # no single model type: the operands may have been merged group-wise into members of a union; every element must
        # still be the operand's element up to the numeric cast into the type it now has
        expected = MM.concatenate(operands)
        sources = [T for T, vals in operands for _ in vals]
        ok = len(Vr) == len(expected) and all(MM.matches_upto_cast(v, F, o, Tr, mergebool) for v, F, o in zip(expected, sources, Vr))
    if not ok:
        raise Violation("value:" + run.label + "#" + what, "%s does not return the operands' elements in order (each unchanged up to the numeric cast)" % what,
                        expected=M.jsonable(expected), observed=M.jsonable(Vr))
    members = MM.top_union_members(Tr)
    if members is None:
        tags.append("result:single_type")
        if not exact and Lall is not None and matched is None:
            raise Violation("promotion:" + run.label + "#" + what,
                            "%s merged the operands into one type but its leaf types are not those numpy.concatenate gives" % what,
                            expected={"type": MM.normalize(Lall), "operand_types": types}, observed={"type": Tn})
        if not exact and Lall is None:
            tags.append("merged_beyond_model")
    else:
        tags.append("result:union")
        if require_single is not None:
            raise Violation("needless_union:" + run.label + "#" + what, "%s returned a union although %s" % (what, require_single),
                            expected={"operand_types": types}, observed={"type": Tr})
        if members_distinct:
            for i in range(len(members)):
                for j in range(i + 1, len(members)):
                    if MM.must_merge(members[i], members[j], mergebool):
                        raise Violation("needless_union:" + run.label + "#" + what,
                                        "%s returned a union with two members that are identical types up to the numeric dtype" % what,
                                        expected={"operand_types": types}, observed={"type": Tr})
    return tags


def all_must(types, mergebool):
    """every pair of operands has identical types up to the numeric dtype (an unknown-type operand makes no such claim)"""
    real = list(types)
    if any(T[0] == "unknown" for T in real):
        return False
    return all(MM.must_merge(real[i], real[j], mergebool) for i in range(len(real)) for j in range(i + 1, len(real)))


def has_top_union(T):
    return M.strip_option(T)[0] == "union"


# ------------------------------------------------------------------ the three modes
def run_concat(case):
    descs, op, mb = case["arrays"], case["op"], case["mergebool"]
    operands = [M.decode(d) for d in descs]
    types = [T for T, _ in operands]
    label = op + "|" + region(case)
    run = Run(case, label)
    lays = run.layouts
    tags = ["op:" + op, "k:%d" % len(descs), "mergebool:%s" % mb]
    if op == "concatenate":
        tags.append("highlevel:%s" % case.get("highlevel"))
    got_data = False
    result_type = None

    if op == "mergeable":
        for i in range(len(lays)):
            for j in range(len(lays)):
                if i == j:
                    continue
                r = run.call("mergeable", lambda: lays[i].mergeable(lays[j], mb), "mergeable is a total predicate")[1]
                if i < j:
                    r2 = run.call("mergeable", lambda: lays[j].mergeable(lays[i], mb), "mergeable is a total predicate")[1]
                    tags.append("mergeable:symmetric" if r == r2 else "mergeable:asymmetric")
                if not r and MM.must_merge(types[i], types[j], mb):
                    raise Violation("unmergeable:" + label, "two arrays of identical type (up to the numeric dtype) are declared not mergeable: "
                                    "concatenating them gives a union", expected={"types": [types[i], types[j]], "mergeable": True}, observed=False)
                tags.append("mergeable:%s" % r)
        got_data = True

    elif op == "merge":
        pairs = [(0, 1), (1, 0)]
        for i, j in pairs:
            if not run.call("mergeable", lambda: lays[i].mergeable(lays[j], mb), "mergeable is a total predicate")[1]:
                tags.append("merge:not_mergeable")
                if MM.must_merge(types[i], types[j], mb):
                    raise Violation("unmergeable:" + label, "two arrays of identical type (up to the numeric dtype) are declared not mergeable",
                                    expected={"types": [types[i], types[j]], "mergeable": True}, observed=False)
                continue
            res = run.call("merge", lambda: lays[i].merge(lays[j]), "mergeable() returned True (merge is documented to complete then)")[1]
            Tr, Vr = run.read(res, "merge")
            single = None if (has_top_union(types[i]) or has_top_union(types[j])) else \
                "mergeable() returned True and neither operand is a union (merge is documented not to resort to a UnionArray)"
            tags += judge_merged(run, "merge", [operands[i], operands[j]], Tr, Vr, mb, require_single=single, members_distinct=False)
            got_data, result_type = True, Tr

    elif op == "mergemany":
        chain = all(run.call("mergeable", lambda: lays[i].mergeable(lays[i + 1], mb), "mergeable is a total predicate")[1] for i in range(len(lays) - 1))
        star = chain and all(run.call("mergeable", lambda: lays[i].mergeable(lays[j], mb), "mergeable is a total predicate")[1]
                             for i in range(len(lays)) for j in range(i + 2, len(lays)))
        if not star:
            tags.append("mergemany:not_mergeable")
            if all_must(types, mb):
                raise Violation("unmergeable:" + label, "arrays of identical type (up to the numeric dtype) are declared not mergeable",
                                expected={"types": types, "mergeable": True}, observed=False)
        else:
            res = run.call("mergemany", lambda: lays[0].mergemany(lays[1:]), "the operands are declared pairwise mergeable")[1]
            Tr, Vr = run.read(res, "mergemany")
            single = None if any(has_top_union(T) for T in types) else "all operands are declared mergeable and none is a union"
            tags += judge_merged(run, "mergemany", operands, Tr, Vr, mb, require_single=single, members_distinct=False)
            got_data, result_type = True, Tr

    elif op == "merge_as_union":
        res = run.call("merge_as_union", lambda: lays[0].merge_as_union(lays[1]), "merge_as_union accepts any two arrays")[1]
        nounion = not ("'union'" in repr(types[0]) or "'union'" in repr(types[1]))
        Tr, Vr = run.read(res, "merge_as_union", closure=not (has_top_union(types[0]) or has_top_union(types[1])))
        tags += judge_merged(run, "merge_as_union", operands[:2], Tr, Vr, mb, exact=True, members_distinct=False)
        if not has_top_union(Tr):
            raise Violation("resultkind:" + label + "#merge_as_union", "merge_as_union did not return a union type", observed={"type": Tr})
        got_data, result_type = True, Tr
        tags.append("merge_as_union:plain_operands" if nounion else "merge_as_union:union_operand")

    elif op == "concatenate":
        res = ak_concatenate(run, case, 0)
        Tr, Vr = run.read(res, "concatenate")
        single = None
        if all_must(types, mb) and not any(has_top_union(T) for T in types):
            single = "all operands have identical types up to the numeric dtype"
        tags += judge_merged(run, "concatenate", operands, Tr, Vr, mb, require_single=single)
        got_data, result_type = True, Tr
    else:
        raise HarnessError("unknown op " + op)

    run.purity()
    classes = set(d["class"] for d in descs)
    feats = set()
    for d in descs:
        feats |= gen.features(d)
    rel = "must" if all_must(types, mb) else ("lenient" if MM.lenient_merge(types, mb) is not None else "different")
    tags.append("relation:" + rel)
    if got_data and any(t.startswith("promotion:") for t in tags):
        firsts = [(_leaf_dtypes(d) or [None])[0] for d in descs]
        tags += sorted(set("promote:%s+%s" % (x, y) for x, y in zip(firsts, firsts[1:]) if x and y))
    if any(d["class"] == "EmptyArray" for d in descs):
        tags.append("with_EmptyArray")
    if any(len(v) == 0 for _, v in operands):
        tags.append("with_empty_operand")
    nontrivial = got_data and (len(classes) > 1 or "width32" in feats or (result_type is not None and M.strip_option(result_type)[0] == "union")
                               or (result_type is not None and result_type[0] == "option"))
    return {"tags": tags + sorted("class:" + c for c in classes), "nontrivial": bool(nontrivial), "sample_class": op + ":" + rel}


def _strip_lists(T, n):
    for _ in range(n):
        if T[0] not in ("list", "regular"):
            return None
        T = T[1]
    return T


def _shape_and_lists(v, depth):
    """(lengths of the levels above `depth`, the lists at that depth in order)"""
    if depth == 1:
        return len(v), list(v)
    shapes, lists = [], []
    for x in v:
        sh, ls = _shape_and_lists(x, depth - 1)
        shapes.append(sh)
        lists.extend(ls)
    return shapes, lists


def run_deep(case):
    """ak.concatenate(axis >= 1): corresponding lists are concatenated"""
    descs, axis, pos, mb = case["arrays"], case["axis"], case["posaxis"], case["mergebool"]
    operands = [M.decode(d) for d in descs]
    label = case_label(case)
    run = Run(case, label)
    etypes = [_strip_lists(T, pos) for T, _ in operands]
    if any(E is None for E in etypes):
        raise HarnessError("deep_case generated an operand that is not %d lists deep" % pos)
    res = ak_concatenate(run, case, axis)
    Tr, Vr = run.read(res, "concatenate")
    Er = _strip_lists(Tr, pos)
    if Er is None:
        raise Violation("structure:" + label, "the result of ak.concatenate(axis=%d) is not a list type down to that axis" % axis,
                        expected={"operand_types": [T for T, _ in operands]}, observed={"type": Tr})
    shapes, lists = zip(*[_shape_and_lists(v, pos) for _, v in operands])
    if any(sh != shapes[0] for sh in shapes):
        raise HarnessError("deep_case generated operands of different structure above the axis")
    try:
        rshape, rlists = _shape_and_lists(Vr, pos)
    except TypeError:
        rshape, rlists = None, []
    expected_lists = [sum((list(ls[j]) for ls in lists), []) for j in range(len(lists[0]))]
    if rshape != shapes[0] or any(r is None for r in rlists) or [len(r) for r in rlists] != [len(e) for e in expected_lists]:
        raise Violation("structure:" + label, "ak.concatenate(axis=%d) changed the list structure above the axis or the lengths of the concatenated lists "
                        "are not the sums of the operands' list lengths" % axis, expected=M.jsonable(expected_lists), observed=M.jsonable(Vr))
    pseudo = []
    for j in range(len(lists[0])):
        for i in range(len(operands)):
            pseudo.append((etypes[i], lists[i][j]))
    for E in etypes:
        pseudo.append((E, []))
    flat = sum((list(r) for r in rlists), [])
    single = None
    if all_must(etypes, mb) and not any(has_top_union(E) for E in etypes):
        single = "the lists of all operands have identical element types up to the numeric dtype"
    tags = ["op:concatenate_axis%d" % pos, "k:%d" % len(descs), "mergebool:%s" % mb, "axis:%d" % axis, "highlevel:%s" % case["highlevel"]]
    tags += [t for t in judge_merged(run, "concatenate", pseudo, Er, flat, mb, require_single=single) if not t.startswith("promotion:pairwise")]
    run.purity()
    classes = set(d["class"] for d in descs)
    feats = set()
    for d in descs:
        feats |= gen.features(d)
    rel = "must" if all_must(etypes, mb) else ("lenient" if MM.lenient_merge(etypes, mb) is not None else "different")
    tags.append("relation:" + rel)
    contributing = sum(1 for ls in lists if any(len(x) for x in ls))
    nontrivial = contributing >= 2 and (len(classes) > 1 or "width32" in feats or M.strip_option(Er)[0] == "union" or Er[0] == "option")
    return {"tags": tags + sorted("class:" + c for c in classes), "nontrivial": bool(nontrivial), "sample_class": "concatenate_axis%d:%s" % (pos, rel)}


def run_simplify(case):
    desc, merge, mb = case["desc"], case["merge"], case["mergebool"]
    T, vals = M.decode(desc)
    label = case_label(case)
    run = Run(case, label)
    lay = run.layouts[0]
    isunion = desc["class"].startswith("UnionArray")
    if isunion:
        res = run.call("simplify", lambda: lay.simplify(merge, mb), "simplify accepts any union")[1]
    else:
        res = run.call("simplify", lambda: lay.simplify(), "simplify accepts any option-type node")[1]
    Tr, Vr = run.read(res, "simplify")
    tags = ["op:simplify", "outer:" + desc["class"], "merge:%s" % merge, "mergebool:%s" % mb]
    exact = not (isunion and merge)
    if exact:
        same = M.same_value(Vr, vals, strict_bool=True)
    else:
        same = len(Vr) == len(vals) and all(MM.matches_upto_cast(v, T, o, Tr, mb) for v, o in zip(vals, Vr))
    if not same:
        raise Violation("value:" + label, "simplify changed a value", expected=M.jsonable(vals), observed=M.jsonable(Vr))
    if M.strip_option(Tr)[0] == "union" and any(M.strip_option(t)[0] == "union" for t in M.strip_option(Tr)[1]):
        tags.append("union_member_still_union_type(behind_an_indexed_node)")   # the library's validity check accepted it (see run.read)
    if isunion and merge:
        members = MM.top_union_members(Tr)
        if members is not None:
            for i in range(len(members)):
                for j in range(i + 1, len(members)):
                    if MM.must_merge(members[i], members[j], mb):
                        raise Violation("needless_union:" + label, "simplify(merge=True) left two members that are identical types up to the numeric dtype",
                                        expected={"member_types": T}, observed={"type": Tr})
        tags.append("result:union" if members is not None else "result:single_type")
    run.purity()
    inner = [c["class"] for c in desc.get("contents", [desc.get("content")])]
    nested = any(c.startswith("UnionArray") for c in inner) if isunion else any(c.startswith(("Indexed", "ByteMasked", "BitMasked", "Unmasked")) for c in inner)
    tags.append("nested" if nested else "not_nested")
    feats = gen.features(desc)
    nontrivial = len(vals) > 0 and (nested or "width32" in feats or Tr[0] in ("option", "union"))
    return {"tags": tags + ["inner:" + c for c in sorted(set(inner))], "nontrivial": bool(nontrivial),
            "sample_class": "simplify:" + ("union" if isunion else "option")}


def run_astype(case):
    desc, to = case["desc"], case["to"]
    T, vals = M.decode(desc)
    label = "numbers_to_type|" + to
    run = Run(case, label)
    lay = run.layouts[0]
    ET, expected, defined = MM.astype(T, vals, to)
    leaves = sorted(set(_leaf_dtypes(desc)))
    if not defined:
        return {"discarded": "a float->integer cast that is undefined behaviour in C (NaN, infinity or out of range)"}
    api = case.get("api", "numbers_to_type")
    if api == "numbers_to_type":
        res = run.call("numbers_to_type", lambda: lay.numbers_to_type(to), "values_astype accepts every numeric dtype")[1]
    else:
        A = P.ak()
        spec = {"name": to, "dtype": np.dtype(to), "type": np.dtype(to).type}[api.split(":")[1]]
        out = run.call("values_astype", lambda: A.values_astype(A.Array(lay), spec), "values_astype accepts every numeric dtype", python=True)[1]
        if not isinstance(out, A.Array):
            raise Violation("resultkind:" + label, "ak.values_astype returned %r instead of an ak.Array" % type(out).__name__)
        res = out.layout
    Tr, Vr = run.read(res, "numbers_to_type")
    if not M.same_value(Vr, expected):
        bad = _first_bad_leaf(T, vals, Vr, expected)
        raise Violation("value:numbers_to_type|%s->%s" % (bad or "?", to), "numbers_to_type differs from numpy.astype on a leaf", expected=M.jsonable(expected),
                        observed=M.jsonable(Vr))
    if MM.normalize(Tr) != MM.normalize(ET):
        raise Violation("type:" + label, "numbers_to_type changed the structure or did not produce the requested dtype",
                        expected={"type": ET}, observed={"type": Tr})
    run.purity()
    feats = gen.features(desc)
    tags = ["op:numbers_to_type", "api:" + api, "to:" + to] + ["cast:%s->%s" % (fr, to) for fr in leaves]
    nontrivial = len(leaves) > 0 and expected not in ([], None) and any(fr != to for fr in leaves)
    return {"tags": tags, "nontrivial": bool(nontrivial), "sample_class": "numbers_to_type"}


def _leaf_dtypes(d):
    if d["class"] == "NumpyArray":
        if (d.get("parameters") or {}).get("__array__") in ("char", "byte"):
            return []
        return [d["dtype"]] if len(d["data"]) else []
    out = []
    if "content" in d:
        out += _leaf_dtypes(d["content"])
    for c in d.get("contents", []):
        out += _leaf_dtypes(c)
    return out


def _first_bad_leaf(T, vals, got, expected):
    """source dtype of the first differing leaf, for the bucket name"""
    try:
        def walk(T, v, g, e):
            if v is None:
                return None
            k = T[0]
            if k == "option":
                return walk(T[1], v, g, e)
            if k == "prim":
                return None if M.same_value(g, e) else T[1]
            if k in ("list", "regular"):
                for x, y, z in zip(v, g, e):
                    r = walk(T[1], x, y, z)
                    if r:
                        return r
            if k == "record":
                for i, (n, t) in enumerate(T[1]):
                    r = walk(t, v[i] if T[2] else v[n], g[i] if T[2] else g[n], e[i] if T[2] else e[n])
                    if r:
                        return r
            return None
        for v, g, e in zip(vals, got, expected):
            r = walk(T, v, g, e)
            if r:
                return r
    except Exception:  # noqa: B902
        return None
    return None


def run_case(case):
    mode = case["mode"]
    if mode == "concat":
        return run_concat(case)
    if mode == "deep":
        return run_deep(case)
    if mode == "simplify":
        return run_simplify(case)
    if mode == "astype":
        return run_astype(case)
    raise HarnessError("unknown mode %r" % (mode,))
