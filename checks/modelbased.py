"""Factory for the 'reference model vs library' checks (C03, C05, C06, C07, C09): one generated array under a random
physical encoding, one operation of the family with generated arguments, compared with akmodel.ops."""
import os

from hypothesis import strategies as st

from akgen import gen
from akmodel import core as M
from checks import ops, modelcheck
from checks import known as K


def install(ns, ID, families, cfg, quick=24000, thorough=900000, nontrivial=None, canonical_fraction=4):
    """fills module namespace `ns` with strategy/run_case/... for check ID"""
    fam_env = os.environ.get("VERIF_FAMILIES")
    fams = fam_env.split(",") if fam_env else families

    @st.composite
    def strategy_(draw):
        T = draw(gen.types(cfg))
        vals = draw(gen.values(T, cfg))
        if draw(st.integers(0, canonical_fraction)) == 0:
            desc = gen.canonical(T, vals)
        else:
            desc = draw(gen.encode(T, vals, cfg))
        spec = draw(ops.draw_op(T, vals, fams))
        return {"desc": desc, "spec": spec}

    def strategy(tier):
        return strategy_()

    def case_label(case):
        T, vals = M.decode(case["desc"])
        return modelcheck.oplabel(case["spec"]) + "|" + modelcheck.region(T, vals, case["spec"])

    def pre_exclude(case):
        return K.pre_exclude(case["spec"], case["desc"])

    def run_case(case):
        desc, spec = case["desc"], case["spec"]
        tag, nonempty = modelcheck.compare_with_model(desc, spec)
        if tag.startswith("unsupported"):
            return {"discarded": tag}
        T, vals = M.decode(desc)
        nt = nonempty and (nontrivial(T, vals, desc, spec) if nontrivial else True)
        feats = gen.features(desc) & {"offsets0!=0", "listarray_out_of_order", "width32", "numpy_noncontiguous", "ByteMaskedArray",
                                      "BitMaskedArray", "UnmaskedArray", "numpy_nd", "regular_size0", "unreachable_suffix", "RecordArray",
                                      "UnionArray8_64", "UnionArray8_32", "UnionArray8_U32", "IndexedOptionArray32", "IndexedOptionArray64"}
        return {"tags": ["op:" + modelcheck.oplabel(spec), tag] + sorted(feats), "nontrivial": nt, "sample_class": modelcheck.oplabel(spec)}

    ns.update(dict(ID=ID, strategy=strategy, run_case=run_case, case_label=case_label, pre_exclude=pre_exclude, KNOWN=K.PREDICATES,
                   PLAN={"quick": [{"flavour": "plain", "cases": quick}, {"flavour": "san", "cases": max(quick // 6, 1000)}],
                         "thorough": [{"flavour": "plain", "cases": thorough}, {"flavour": "san", "cases": thorough // 3}]},
                   WALL_CAP={"quick": 900, "thorough": 3300}, setup=lambda flavour, tier: None, FORK_EACH=True))
