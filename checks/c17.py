"""C17 - types and forms describe the data truthfully and survive serialisation (tier L + the pure-Python type parser)."""
import base64
import glob
import json
import os
import re
import shutil
import subprocess
import sys
import tempfile

from hypothesis import strategies as st

from akgen import gen, forms as GF
from akmodel import core as M
from akmodel import typestr as TS
from akmodel import forms as MF
from akshim import describe as D
from akshim import layout as L
from akshim.core import call, result_str, OtherNativeError, release
from vlib.common import Violation, HarnessError, build_dir

ID = "C17"
MANIFEST = {
    "technique": "property-based testing (Hypothesis): generated layouts, Form JSON trees and types against an independent datashape printer, a normal-form model of Form JSON and the library's own equality; print/parse round trips through the repository's Lark type parser; the same statements through the Python layer on the _ext emulation; coverage-guided fuzzing (libFuzzer + ASan/UBSan) of Form::fromjson with a fixed-point oracle inside the target",
    "level_text": "Generated-input exploration in seven parts. (A) for generated valid layouts in every physical encoding, with generated parameters, record names, categorical markers and custom typestrs: type(form(a)) prints as type(a) and as an independent printer of the model type written from the documented datashape syntax; depth, regularity and field queries on the Content and on its Form equal those computed from the nested-list type; form(a) survives JSON. (B) Form JSON trees drawn from the whole node grammar (all 14 Form classes, shorthand and generic spellings, identities flags, form keys, parameters holding arbitrary JSON values): the Form read equals the documented normal form (through accessors and through tojson), re-reading its verbose and terse JSON gives an equal Form (Form::equal with every flag, parameters compared by JSON value by the check), printing is a fixed point, the type survives. (M) damaged Form JSON is refused cleanly or, when the Form that was built describes an array class of the library, survives JSON like any other. (C) range slices keep the type string; every element taken out (the C++ result, before the binding boxes it) has the type the array's type promises for its items. (D) types built through the constructors of ak.types are printed, parsed back by ak.types.from_datashape (the repository's Lark parser, imported from /repo/src, running on C++ Type objects) and must come back structurally identical, equal and printing identically; a text that the parser only reads with high_level=True is given to it that way. (P) through the unmodified Python layer on the awkward._ext emulation: ak.type(array) is '<length> * <datashape>', layout.form.type == layout.type, ndim / ak.fields / purelist_isregular agree with the value, ak.forms.Form.fromjson(form.tojson()) == form, array[a:b] keeps the item type, array[i] is a None / number / str / ak.Record / ak.Array of a type the item type promises. (F, thorough tier) libFuzzer on Form::fromjson: clean refusal, or tojson/fromjson fixed point + Form::equal + same type for every accepted form inside the grammar. Held on everything generated outside the recorded known findings.",
    "level_note": "Trusted: akmodel.typestr (my reading of the datashape documents and of type-grammar.lark), akmodel.forms (my reading of the documented Form JSON defaults), the /verif bridge and the awkward._ext emulation (a re-statement of src/python/{types,forms,content}.cpp, which cannot be compiled here: what pickling of forms/types or box()/unbox() do in the real binding is not observed), the RapidJSON stand-in (number formatting is its own: parameters are compared by value, never by text). Not exercised: Identities objects (only the has_identities flag of forms), U+0000 in names (parameter names, record keys, form keys; it is generated inside parameter values), NaN/Infinity in parameters, user-defined typestrs in the parse round trip (a typestr hides the structure it stands for), NumpyArray layouts whose buffer format is not the canonical one of their dtype (such forms only come from Form JSON, parts B/M/F), VirtualArray and partitioned layouts (C18), datetime64/timedelta64 layouts (their forms are generated in part B). Forms that Form.fromjson builds but that describe no array class (index widths without a class, a record with two fields of one name, an itemsize that is not the primitive's) are outside the property's quantifier: only required not to crash. atheris on the type parser (DESIGN) is replaced by Hypothesis part D, which generates the printer's image directly.",
}
RULE = ("case = one of: (A) layout description + parameter decoration + custom typestrs + probe keys; (B) Form JSON tree; (M) damaged Form JSON text; "
        "(C)/(P) layout + custom typestrs + ranges; (D) extended model type (+ length for ArrayType); (F) one libFuzzer campaign (counted as fuzz_executions, not "
        "as cases). non-trivial = the type / form tree has >= 3 nodes and carries at least one parameter or record name (for C/P also: the array is not empty; "
        "for M: the text is longer than 30 characters and the reader accepted a form inside the grammar or refused it); distinct by hash of the case")
ASSUMPTIONS = [
    "parameter texts are compared as JSON values (1 == 1.0); the stand-in's number formatting is never asserted",
    "identities objects are not generated (has_identities flags of forms are)",
    "names of parameters, record keys, form keys and record names never contain U+0000 (string values inside parameters and keys of nested objects do); parameters never contain NaN/Infinity (not JSON)",
    "minmax_depth/branch_depth are not compared for types containing a record without fields, numfields not for unions (the documents do not define them)",
    "a decimal position used as a key of a record with named fields (\"1\" on {x, y}) is accepted by the library; the documents do not say either way, so haskey/fieldindex are only compared between Content and Form there",
    "part D does not generate user-defined typestrs (a typestr hides the structure it stands for, so it cannot be parsed back by design)",
    "from_datashape is called with high_level=True for ArrayType strings and for texts on which the parser itself asserts high_level (as tests/test_0773 does)",
    "Form::equal is called with check_identities, check_parameters, check_form_key on and compatibility_check both off and on",
    "Content::type is not asked of a zero-dimensional NumpyArray (no caller can obtain one: the binding's box() consumes it); its dtype is read instead",
]
PLAN = {
    "quick": [{"flavour": "plain", "cases": 27000}, {"flavour": "san", "cases": 4000}],
    # the last entry is the libFuzzer campaign: each of its workers runs one `F` seed case (FUZZ_RUNS executions of fuzz_form, own seed)
    "thorough": [{"flavour": "plain", "cases": 320000}, {"flavour": "san", "cases": 120000},
                 {"flavour": "san", "cases": 4, "workers": 4, "flags": ["--seeds", "--fuzz"]}],
}
WALL_CAP = {"quick": 900, "thorough": 3300}
if os.environ.get("C17_DEV_SCALE"):     # development only: a fraction of the budget
    for _tier in PLAN.values():
        for _p in _tier:
            if "flags" not in _p:
                _p["cases"] = max(1, int(_p["cases"] * float(os.environ["C17_DEV_SCALE"])))
FORK_EACH = False
FUZZ_TARGETS = ["fuzz_form"]
CFG = gen.Cfg(max_depth=3, leaf_dtypes=("int64", "float64", "bool", "int32", "uint8", "float32", "complex128", "int8", "uint64"), nan=False)
PROBE_KEYS = ["x", "y", "z", "w", "0", "1", "2", "nope", "", "a b", "é", "-1", "01", "1x", " 1", "7", "99999999999", "99999999999999999999999"]


# =========================================================================================== strategy
@st.composite
def _layout(draw):
    T = draw(gen.types(CFG))
    vals = draw(gen.values(T, CFG))
    desc = draw(gen.encode(T, vals, CFG))
    desc = draw(GF.decorate(desc))
    custom = draw(st.sampled_from([{}, {}, {}, {"Point": "PointT"}, {"Vec": "vec3", "Point": "point"}, {"string": "str", "Point": "P"}]))
    return desc, custom


@st.composite
def strategy_(draw):
    part = draw(st.sampled_from(["A", "A", "A", "A", "A", "B", "B", "B", "B", "B", "B", "M", "M", "C", "C", "C", "D", "D", "D", "D", "P", "P", "P"]))
    if part == "A":
        desc, custom = draw(_layout())
        keys = draw(st.lists(st.sampled_from(PROBE_KEYS), min_size=2, max_size=5, unique=True))
        return {"part": "A", "desc": desc, "typestrs": custom, "probe": keys}
    if part == "B":
        return {"part": "B", "json": draw(GF.forms(depth=draw(st.sampled_from([1, 2, 3, 3])))), "ascii": draw(st.booleans())}
    if part == "M":
        j = draw(GF.forms(depth=draw(st.sampled_from([0, 1, 2]))))
        txt, how = draw(GF.corrupt(j))
        return {"part": "M", "text": txt, "how": how}
    if part in ("C", "P"):
        desc, custom = draw(_layout())
        n = M.length_of(desc)
        ranges = draw(st.lists(st.tuples(st.integers(-n - 2, n + 2), st.integers(-n - 2, n + 2)), min_size=1, max_size=3))
        return {"part": part, "desc": desc, "typestrs": custom, "ranges": [list(r) for r in ranges]}
    profile = draw(st.sampled_from(["plain", "plain", "plain", "wild"]))
    T = draw(GF.xtypes(depth=draw(st.sampled_from([1, 2, 3])), profile=profile))
    length = draw(st.sampled_from([None, None, 0, 3, 12]))
    return {"part": "D", "type": T, "length": length, "profile": profile}


def strategy(tier):
    return strategy_()


SEED_CASES = []
FUZZ_RUNS = {"quick": 20000, "thorough": 1500000}      # per fuzz worker


def setup(flavour, tier):
    """the plan entry flagged --fuzz (thorough, san) gives each of its workers one libFuzzer campaign of fuzz/fuzz_form.cpp as a seed case"""
    global SEED_CASES
    SEED_CASES = []
    if "--fuzz" in sys.argv and flavour == "san":
        seed = 1
        if len(sys.argv) > 4 and sys.argv[4].isdigit():
            seed = int(sys.argv[4]) % (2 ** 31 - 1) + 1
        runs = int(os.environ.get("VERIF_FUZZ_RUNS", FUZZ_RUNS.get(tier, 20000)))
        SEED_CASES.append({"part": "F", "seed": seed, "runs": runs, "max_len": 384})


def case_label(case):
    return "part" + case.get("part", "?")


def pre_exclude(case):
    return None


# =========================================================================================== helpers
def _ts_pairs(custom):
    ts = dict(TS.DEFAULT_TYPESTRS)
    ts.update(custom or {})
    ss = []
    for k in sorted(ts):
        ss += [k, ts[k]]
    return ts, ss


def _outcome(fn):
    """('ok', value) | ('ValueError', msg) | ('RuntimeError', msg); anything else propagates as a violation of clause C12"""
    try:
        return "ok", fn()
    except ValueError as e:
        return "ValueError", str(e)
    except RuntimeError as e:
        return "RuntimeError", str(e)
    except OtherNativeError as e:
        return "OtherNativeError", str(e)


def _where(diff):
    """short region key of a form difference: the member that differs"""
    head = diff.split(": ", 1)[0]
    tail = head.rsplit(".", 1)[-1]
    if tail.startswith("contents"):
        return "contents"
    return tail if tail.isidentifier() else "node"


def _first_line(msg):
    return msg.split("\n")[0][:120]


class H(object):
    """handle that is released when the case ends"""

    def __init__(self):
        self.hs = []

    def keep(self, h):
        self.hs.append(h)
        return h

    def close(self):
        for h in self.hs:
            release(h)
        self.hs = []


def _form_tojson(h, pretty, verbose):
    return result_str(call("form_tojson", [h], [int(pretty), int(verbose)]))


def _form_info(h):
    return MF.from_info(json.loads(result_str(call("form_info", [h]))))


def _nontrivial_type(T):
    return TS.count_nodes(T) >= 3 and TS.has_annotation(T)


# =========================================================================================== part A
def _queries_content(lay, probe):
    q = {}
    q["purelist_depth"] = _outcome(lambda: lay.purelist_depth)
    q["purelist_isregular"] = _outcome(lambda: lay.purelist_isregular)
    q["minmax_depth"] = _outcome(lambda: list(lay.minmax_depth))
    q["branch_depth"] = _outcome(lambda: list(lay.branch_depth))
    q["numfields"] = _outcome(lambda: lay.numfields)
    q["keys"] = _outcome(lambda: lay.keys())
    for k in probe:
        q["haskey:" + k] = _outcome(lambda: bool(call("haskey_x", [lay._h], ss=[k]).i))
        q["fieldindex:" + k] = _outcome(lambda: call("fieldindex_x", [lay._h], ss=[k]).i)
    nf = q["numfields"][1] if q["numfields"][0] == "ok" else -1
    for i in range(0, max(nf, 0) + 1):
        q["key:%d" % i] = _outcome(lambda: result_str(call("key_x", [lay._h], [i])))
    return q


def _queries_form(fh, probe, nf):
    q = {}
    q["purelist_depth"] = _outcome(lambda: call("form_int", [fh], [0]).i)
    q["purelist_isregular"] = _outcome(lambda: bool(call("form_int", [fh], [1]).i))
    q["minmax_depth"] = _outcome(lambda: [call("form_int", [fh], [2]).i, call("form_int", [fh], [3]).i])
    q["branch_depth"] = _outcome(lambda: [bool(call("form_int", [fh], [4]).i), call("form_int", [fh], [5]).i])
    q["numfields"] = _outcome(lambda: call("form_int", [fh], [6]).i)
    q["keys"] = _outcome(lambda: json.loads(result_str(call("form_keys", [fh]))))
    for k in probe:
        q["haskey:" + k] = _outcome(lambda: bool(call("form_haskey_x", [fh], ss=[k]).i))
        q["fieldindex:" + k] = _outcome(lambda: call("form_fieldindex_x", [fh], ss=[k]).i)
    for i in range(0, max(nf, 0) + 1):
        q["key:%d" % i] = _outcome(lambda: result_str(call("form_key_x", [fh], [i])))
    return q


def _queries_model(T, probe):
    """name -> ('ok', value) | ('error',) | None (not decided by the documents)"""
    q = {}
    q["purelist_depth"] = ("ok", TS.purelist_depth(T))
    q["purelist_isregular"] = ("ok", TS.purelist_isregular(T))
    mm = TS.minmax_depth(T)
    q["minmax_depth"] = None if mm is None else ("ok", list(mm))
    bd = TS.branch_depth(T)
    q["branch_depth"] = None if bd is None else ("ok", list(bd))
    nf = TS.numfields(T)
    q["numfields"] = None if nf is None else ("ok", nf)
    ks = TS.keys(T)
    q["keys"] = ("ok", ks)
    rec = TS.outer_record(T)
    for k in probe:
        canonical_index = k.isdigit() and k.isascii() and str(int(k)) == k
        if rec is None:
            q["haskey:" + k] = ("ok", False)
            q["fieldindex:" + k] = ("error",)
        elif rec == "union":
            q["haskey:" + k] = ("ok", k in ks) if not canonical_index or k in ks else None
            q["fieldindex:" + k] = ("error",)
        elif k in ks:
            q["haskey:" + k] = ("ok", True)
            q["fieldindex:" + k] = ("ok", ks.index(k))
        elif canonical_index and not rec[2]:
            # a decimal position used as a key of a record with named fields: accepted by the library ("key interpreted as
            # fieldindex"); the documents do not say either way
            q["haskey:" + k] = None
            q["fieldindex:" + k] = None
        else:
            q["haskey:" + k] = ("ok", False)
            q["fieldindex:" + k] = ("error",)
    if rec is not None and rec != "union":
        for i, k in enumerate(ks):
            q["key:%d" % i] = ("ok", k)
        q["key:%d" % len(ks)] = ("error",)
    else:
        q["key:0"] = ("error",)
    return q


def _region_query(name):
    return name.split(":")[0]


def run_A(case, hh):
    desc, probe = case["desc"], case["probe"]
    ts, ss = _ts_pairs(case.get("typestrs"))
    T = TS.type_of(desc)
    Tplain, vals = M.decode(desc)
    if TS.strip(T) != Tplain:
        raise HarnessError("akmodel.typestr.type_of and akmodel.core.decode disagree: %r vs %r" % (TS.strip(T), Tplain))
    lay = D.build(desc)
    fh = hh.keep(call("form", [lay._h], [0]).h)
    tags = ["part:A"] + sorted(GF.type_classes(T)) + sorted("layout:" + c for c in gen.features(desc) if c[0].isupper())
    if case.get("typestrs"):
        tags.append("A:custom_typestrs")
    # ---- the type obtained from the form equals the type obtained from the array
    ta = hh.keep(call("type_ts", [lay._h], ss=ss).h)
    tf = hh.keep(call("form_type_ts", [fh], ss=ss).h)
    sa = result_str(call("type_tostring", [ta]))
    sf = result_str(call("type_tostring", [tf]))
    if sa != sf:
        raise Violation("A:type_form_vs_array|" + desc["class"], "type(form(a)) prints differently from type(a)", expected=sa, observed=sf)
    if not call("type_equal", [ta, tf], [1]).i or not call("type_equal", [tf, ta], [1]).i:
        raise Violation("A:type_form_vs_array_equal|" + desc["class"], "type(form(a)) != type(a) under Type::equal", expected=sa, observed=sf)
    # ---- both equal the documented datashape string of the model type
    want = TS.show(T, ts)
    if sa != want:
        raise Violation("A:typestr_model|" + T[0], "type string differs from the documented datashape rendering of the value's type",
                        expected=want, observed=sa)
    arr = result_str(call("arraytypestr_ts", [lay._h], ss=ss))
    if arr != TS.show_array(T, len(vals), ts):
        raise Violation("A:arraytypestr_model", "ArrayType string differs from '<length> * <type>'", expected=TS.show_array(T, len(vals), ts), observed=arr)
    # ---- depth / regularity / field queries: Content == Form == nested-list value
    qc = _queries_content(lay, probe)
    nf = qc["numfields"][1] if qc["numfields"][0] == "ok" else -1
    qf = _queries_form(fh, probe, nf)
    qm = _queries_model(T, probe)
    for name in qc:
        c, f = qc[name], qf[name]
        if c[0] == "OtherNativeError" or f[0] == "OtherNativeError":
            raise Violation("A:query_exception:" + _region_query(name), "%s raises a non-documented C++ exception: %s" % (json.dumps(name), (c if c[0] != "ok" else f)[1][:200]),
                            observed=[list(c), list(f)], clause="C12-exception")
        same = (c[0] == f[0]) and (c[0] != "ok" or c[1] == f[1])
        if not same:
            raise Violation("A:query_content_vs_form:" + _region_query(name), "%s differs between the Content and its Form" % json.dumps(name),
                            expected=[c[0], c[1] if c[0] == "ok" else _first_line(c[1])], observed=[f[0], f[1] if f[0] == "ok" else _first_line(f[1])])
        m = qm.get(name)
        if m is None:
            tags.append("undecided:" + _region_query(name))
            continue
        if m[0] == "error":
            if c[0] == "ok":
                raise Violation("A:query_model:" + _region_query(name), "%s answers %r where the value has no such field/record" % (json.dumps(name), c[1]),
                                expected="an error", observed=c[1])
        elif c[0] != "ok" or c[1] != m[1]:
            raise Violation("A:query_model:" + _region_query(name), "%s disagrees with the nested-list value" % json.dumps(name),
                            expected=m[1], observed=c[1] if c[0] == "ok" else [c[0], _first_line(c[1])])
    # ---- the form of a real array survives JSON
    _roundtrip_form(fh, hh, "A2", expected=None)
    return {"tags": tags, "nontrivial": _nontrivial_type(T), "sample_class": "A:" + T[0]}


# =========================================================================================== part B
def _equal_all(f, g):
    a = call("form_equal", [f, g], [1, 1, 1, 0]).i and call("form_equal", [g, f], [1, 1, 1, 0]).i
    b = call("form_equal", [f, g], [1, 1, 1, 1]).i and call("form_equal", [g, f], [1, 1, 1, 1]).i
    return bool(a), bool(b)


def _tinfo(th):
    """a C++ Type object read through its accessors (bridge op type_info); parameters decoded to JSON values"""
    def dec(n):
        n = dict(n)
        n["parameters"] = {k: json.loads(v) for k, v in n.pop("rawparameters").items()}
        if "content" in n:
            n["content"] = dec(n["content"])
        if "contents" in n:
            n["contents"] = [dec(c) for c in n["contents"]]
        return n
    return dec(json.loads(result_str(call("type_info", [th]))))


def _type_outcome(fh, ss):
    """('ok', (type structure, type string)) of a form's type, or the error class"""
    def go():
        t = call("form_type_ts", [fh], ss=ss).h
        try:
            return _tinfo(t), result_str(call("type_tostring", [t]))
        finally:
            release(t)
    return _outcome(go)


def _roundtrip_form(fh, hh, part, expected):
    """Form -> JSON -> Form for an existing Form object; `expected` (normal form) if the form came from JSON"""
    info = _form_info(fh)
    if expected is not None:
        diff = MF.form_equal(info, expected)
        if diff:
            raise Violation(part + ":read|" + _where(diff), "Form.fromjson built a different form than the JSON describes: " + diff,
                            expected=expected, observed=info)
    else:
        expected = info
    kv, v = _outcome(lambda: _form_tojson(fh, 0, 1))
    if kv != "ok":
        raise Violation(part + ":tojson_raises", "Form.tojson(verbose) raises %s: %s" % (kv, _first_line(v)), observed=v[:300])
    kn, nv = _outcome(lambda: _form_tojson(fh, 0, 0))
    kp, pv = _outcome(lambda: _form_tojson(fh, 1, 0))
    if kn != "ok" or kp != "ok":
        raise Violation(part + ":tojson_raises", "Form.tojson raises", observed=[kn, kp])
    try:
        pj, nj, ppj = json.loads(v), json.loads(nv), json.loads(pv)
    except ValueError as e:
        raise Violation(part + ":tojson_invalid_json", "Form.tojson printed text that is not JSON: %s" % e, observed=v[:400])
    diff = MF.form_equal(pj, expected)
    if diff:
        raise Violation(part + ":print|" + _where(diff), "Form.tojson(verbose) does not describe the form: " + diff, expected=expected, observed=pj)
    if not MF.json_equal(nj, ppj, key_order=True):
        raise Violation(part + ":pretty", "pretty and compact tojson differ as JSON", expected=nj, observed=ppj)
    _, ss = _ts_pairs(None)
    t0 = _type_outcome(fh, ss)
    for label, text in (("verbose", v), ("terse", nv)):
        k2, f2 = _outcome(lambda: call("form_fromjson", ss=[text]).h)
        if k2 != "ok":
            raise Violation(part + ":reread_refused:" + label, "Form.fromjson refuses the %s JSON that Form.tojson printed: %s" % (label, _first_line(f2)),
                            observed=text[:400])
        hh.keep(f2)
        info2 = _form_info(f2)
        diff = MF.form_equal(info2, expected)
        if diff:
            raise Violation(part + ":reread|" + _where(diff), "fromjson(tojson(f, %s)) is a different form: %s" % (label, diff),
                            expected=expected, observed=info2)
        strict, compat = _equal_all(fh, f2)
        if not strict or not compat:
            raise Violation(part + ":equal:" + label, "fromjson(tojson(f)) is not Form::equal to f (strict=%s, compatibility=%s)" % (strict, compat),
                            observed=text[:400])
        k3, v3 = _outcome(lambda: _form_tojson(f2, 0, 1))
        if k3 != "ok" or not MF.json_equal(json.loads(v3), pj, key_order=True):
            raise Violation(part + ":fixedpoint:" + label, "tojson is not a fixed point after one round trip", expected=pj, observed=v3[:400])
        t2 = _type_outcome(f2, ss)
        tdiff = None
        if t0[0] != t2[0]:
            tdiff = "%s vs %s" % (t0[0], t2[0])
        elif t0[0] == "ok":
            tdiff = _structure_diff(t0[1][0], t2[1][0])     # parameters by JSON value: their text may be re-spaced by the JSON writer
        if tdiff:
            raise Violation(part + ":type_survives:" + label, "the type of the form changes over Form -> JSON -> Form: " + tdiff,
                            expected=t0[1][1] if t0[0] == "ok" else t0[0], observed=t2[1][1] if t2[0] == "ok" else t2[0])
    return pj


def run_B(case, hh):
    j = case["json"]
    text = json.dumps(j, ensure_ascii=bool(case.get("ascii", True)))
    expected = MF.normal(j)
    k, fh = _outcome(lambda: call("form_fromjson", ss=[text]).h)
    if k != "ok":
        raise Violation("B:refused|" + (j if isinstance(j, str) else j["class"]), "Form.fromjson refuses a Form JSON from the node grammar: " + _first_line(fh),
                        observed=text[:400])
    hh.keep(fh)
    _roundtrip_form(fh, hh, "B", expected)
    tags = ["part:B"] + sorted(GF.form_classes(j))
    kinds = set()
    for v in MF.all_parameter_values(j):
        GF.json_kind_tags(v, kinds)
    tags += ["param:" + x for x in sorted(kinds)]
    return {"tags": tags, "nontrivial": MF.count_nodes(j) >= 3 and MF.has_parameters(j), "sample_class": "B:" + (j if isinstance(j, str) else j["class"])}


def run_M(case, hh):
    text = case["text"]
    k, fh = _outcome(lambda: call("form_fromjson", ss=[text]).h)
    if k == "OtherNativeError":
        raise Violation("M:exception", "Form.fromjson raises a non-documented C++ exception on damaged JSON: " + fh[:200], clause="C12-exception")
    if k != "ok":
        return {"tags": ["part:M", "M:refused:" + k, "M:how:" + case["how"]], "nontrivial": len(text) > 30, "sample_class": "M:refused"}
    hh.keep(fh)
    why = MF.outside_grammar(_form_info(fh))
    if why is not None:
        # the lenient reader built a Form that describes no array class (e.g. a generic "ListOffsetArray" with "offsets": "i8"):
        # outside the property's quantifier; only required not to crash or leak a foreign exception when printed
        for pretty, verbose in ((0, 1), (1, 0)):
            k2, v2 = _outcome(lambda: _form_tojson(fh, pretty, verbose))
            if k2 == "OtherNativeError":
                raise Violation("M:exception", "Form.tojson raises a non-documented C++ exception: " + v2[:200], clause="C12-exception")
        return {"tags": ["part:M", "M:accepted_outside_grammar", "M:how:" + case["how"]], "nontrivial": False, "sample_class": "M:outside"}
    # accepted and inside the node grammar: then it is a Form like any other and must survive JSON
    _roundtrip_form(fh, hh, "M", expected=None)
    return {"tags": ["part:M", "M:accepted", "M:how:" + case["how"]], "nontrivial": len(text) > 30, "sample_class": "M:accepted"}


# =========================================================================================== part C
def _item_candidates(T):
    """the types an element taken out of an array of item type T may have: [(kind, type)] with kind in
    'none' | 'scalar' | 'record' | 'array' (type = the element's own item type)"""
    k = T[0]
    if k == "option":
        return [("none", None)] + _item_candidates(T[1])
    if k == "union":
        out = []
        for t in T[1]:
            out += _item_candidates(t)
        return out
    if k in ("prim",):
        return [("scalar", T)]
    if k == "unknown":
        return []
    if k == "record":
        return [("record", T)]
    if k in ("list", "regular", "string", "bytes"):
        return [("array", TS._content(T))]
    raise ValueError(T)


def _item_strings(T):
    """which of 'string' / 'bytes' an element of an array of item type T may be (through options and unions)"""
    k = T[0]
    if k == "option":
        return _item_strings(T[1])
    if k == "union":
        out = set()
        for t in T[1]:
            out |= _item_strings(t)
        return out
    return {k} if k in ("string", "bytes") else set()


def _uncategorical(T):
    p = dict(TS.meta(T).get("parameters") or {})
    if p.get("__categorical__") is True:
        del p["__categorical__"]
        return TS.with_meta(T, p, TS.meta(T).get("typestr"))
    return T


def run_C(case, hh):
    desc = case["desc"]
    ts, ss = _ts_pairs(case.get("typestrs"))
    T = TS.type_of(desc)
    Tplain, vals = M.decode(desc)
    lay = D.build(desc)
    s = result_str(call("typestr_ts", [lay._h], ss=ss))
    tags = ["part:C"]
    for a, b in case["ranges"]:
        r = lay[a:b]
        sr = result_str(call("typestr_ts", [r._h], ss=ss))
        if sr != s:
            raise Violation("C:range_type|" + desc["class"], "a[%d:%d] has a different type than a" % (a, b), expected=s, observed=sr)
        want_len = len(vals[a:b])
        if len(r) != want_len:
            raise Violation("C:range_length|" + desc["class"], "a[%d:%d] has length %d, expected %d" % (a, b, len(r), want_len), expected=want_len, observed=len(r))
        tags.append("range:empty" if want_len == 0 else "range:nonempty")
    cands = _item_candidates(_uncategorical(T))
    for i in range(min(len(vals), 6)):
        if not gen.conforms(Tplain, vals[i]):
            raise HarnessError("generated value does not conform to its type")
        # the C++ result of getitem_at, before the binding's box() turns a zero-dimensional NumpyArray into a Python number
        # (py::cast of an int32_t is a Python int: the width is dropped by pybind11, not by the library)
        eh = hh.keep(call("getitem_at", [lay._h], [i]).h)
        cname = result_str(call("classname", [eh]))
        if cname == "None":
            kind, shown = "none", None
        elif cname == "Record":
            kind, shown = "record", result_str(call("typestr_ts", [eh], ss=ss))
        elif cname == "NumpyArray" and call("isscalar", [eh]).i:
            # Content::type is not asked of a zero-dimensional NumpyArray (no caller can: box() consumes it); its dtype is read instead
            hh.hs.remove(eh)                               # the wrapper owns (and releases) the handle
            kind, shown = "scalar", L.NumpyArray(_h=eh)._info()[6]
        elif cname in L._CLASSES:
            kind, shown = "array", result_str(call("typestr_ts", [eh], ss=ss))
        else:
            raise HarnessError("unexpected element class %r" % (cname,))
        ok = False
        for ck, ct in cands:
            if ck != kind:
                continue
            if kind == "none":
                ok = True
            elif kind == "scalar":
                ok = ok or (ct[1] == shown)
            else:
                ok = ok or (TS.show(ct, ts) == shown)
        if not ok:
            promised = [("None" if ct is None else (ct[1] if ck == "scalar" else TS.show(ct, ts))) for ck, ct in cands]
            raise Violation("C:element_type|" + kind, "element %d has a type the array's type does not promise for its items" % i,
                            expected=promised, observed=[kind, shown])
        # the element's value is the one the nested-list value has there, hence conforms to the item type
        tags.append("element:" + kind)
    return {"tags": sorted(set(tags)) + sorted(GF.type_classes(T)), "nontrivial": _nontrivial_type(T) and len(vals) > 0, "sample_class": "C:" + T[0]}


# =========================================================================================== part P (Python level)
def _py_scalar_ok(prim, e):
    """box() of the binding turns a zero-dimensional NumpyArray into a Python number: the width is gone, the kind must remain"""
    if prim == "bool":
        return isinstance(e, bool)
    if prim.startswith(("int", "uint")):
        return isinstance(e, int) and not isinstance(e, bool)
    if prim.startswith("float"):
        return isinstance(e, float)
    if prim.startswith("complex"):
        return isinstance(e, complex)
    return True


def run_P(case, hh):
    """the same statements through the Python layer: ak.Array / ak.type / ak.fields / layout.form / ak.forms.Form.fromjson"""
    from checks import pcommon as P
    A = P.ak()
    desc = case["desc"]
    custom = case.get("typestrs") or {}
    ts, _ = _ts_pairs(custom)
    T = TS.type_of(desc)
    Tplain, vals = M.decode(desc)
    n = len(vals)
    behavior = {("__typestr__", k): v for k, v in custom.items()} or None
    arr = A.Array(D.build(desc), behavior=behavior)
    tags = ["part:P"] + sorted(GF.type_classes(T))
    if custom:
        tags.append("P:custom_typestrs")
    # ---- ak.type(array) is `length * type`, the type printed as the documents say
    t = A.type(arr)
    want = TS.show_array(T, n, ts)
    if not isinstance(t, A.types.ArrayType) or str(t) != want or str(arr.type) != want:
        raise Violation("P:type|" + T[0], "ak.type(array) differs from '<length> * <datashape of the value's type>'", expected=want, observed=str(t))
    # ---- the type obtained from the form equals the type obtained from the array
    form = arr.layout.form
    tf = form.type(A._util.typestrs(behavior))
    ta = arr.layout.type(A._util.typestrs(behavior))
    if str(tf) != str(ta) or not (tf == ta) or str(tf) != TS.show(T, ts):
        raise Violation("P:type_form_vs_array|" + desc["class"], "layout.form.type(typestrs) differs from layout.type(typestrs)", expected=str(ta), observed=str(tf))
    if not (t.type == ta) or t.length != n:
        raise Violation("P:arraytype_parts", "ak.type(array).type / .length are not the layout's type / length", expected=[str(ta), n], observed=[str(t.type), t.length])
    # ---- depth and field queries
    if arr.ndim != TS.purelist_depth(T) or arr.layout.purelist_depth != TS.purelist_depth(T) or form.purelist_depth != TS.purelist_depth(T):
        raise Violation("P:ndim", "array.ndim / purelist_depth disagree with the nested-list value", expected=TS.purelist_depth(T),
                        observed=[arr.ndim, arr.layout.purelist_depth, form.purelist_depth])
    ks = TS.keys(T)
    got = A.fields(arr)
    if list(got) != list(ks) or list(arr.fields) != list(ks):
        raise Violation("P:fields", "ak.fields(array) disagrees with the value's record fields", expected=ks, observed=list(got))
    if arr.layout.purelist_isregular != TS.purelist_isregular(T):
        raise Violation("P:isregular", "purelist_isregular disagrees with the value's type", expected=TS.purelist_isregular(T), observed=arr.layout.purelist_isregular)
    # ---- the form survives JSON through the Python API (parameters by JSON value)
    for verbose in (True, False):
        k, text = _outcome(lambda: form.tojson(False, verbose))
        if k != "ok":
            raise Violation("P:tojson_raises", "form.tojson raises %s: %s" % (k, _first_line(text)))
        k, f2 = _outcome(lambda: A.forms.Form.fromjson(text))
        if k != "ok":
            raise Violation("P:reread_refused", "ak.forms.Form.fromjson refuses what form.tojson printed: " + _first_line(f2), observed=text[:400])
        if not (f2 == form) or (f2 != form):
            raise Violation("P:form_equal", "ak.forms.Form.fromjson(form.tojson()) != form", observed=text[:400])
        diff = MF.form_equal(_form_info(f2._h), _form_info(form._h))
        if diff:
            raise Violation("P:form_reread|" + _where(diff), "ak.forms.Form.fromjson(form.tojson()) is a different form: " + diff, observed=text[:400])
        t2 = f2.type(A._util.typestrs(behavior))
        tdiff = _structure_diff(_tinfo(tf._h), _tinfo(t2._h))      # parameters by JSON value: their text is re-spaced by the JSON writer
        if tdiff:
            raise Violation("P:form_type_survives", "the type of the form changes over Form -> JSON -> Form: " + tdiff, expected=str(tf), observed=str(t2))
    # ---- range slices keep the item type
    item = TS.show(T, ts)
    for a, b in case["ranges"]:
        r = arr[a:b]
        m = len(vals[a:b])
        if not isinstance(r, A.Array) or str(A.type(r)) != "%d * %s" % (m, item):
            raise Violation("P:range_type|" + desc["class"], "array[%d:%d] does not have type '<its length> * <the item type>'" % (a, b),
                            expected="%d * %s" % (m, item), observed=str(A.type(r)) if isinstance(r, (A.Array, A.Record)) else repr(r))
        tags.append("range:empty" if m == 0 else "range:nonempty")
    # ---- every element taken out has a type the array's type promises for its items
    cands = _item_candidates(_uncategorical(T))
    for i in range(min(n, 6)):
        e = arr[i]
        if e is None:
            kind, shown = "none", None
        elif isinstance(e, A.Record):
            kind, shown = "record", str(A.type(e))
        elif isinstance(e, A.Array):
            kind, shown = "array", str(A.type(e))
        elif isinstance(e, (bool, int, float, complex)):
            kind, shown = "scalar", e
        elif isinstance(e, (str, bytes)):
            # the string behaviours hand out Python str / bytes for an element of a string / bytestring array
            kind, shown = "pystring", "string" if isinstance(e, str) else "bytes"
            if shown not in _item_strings(_uncategorical(T)):
                raise Violation("P:element_type|pystring", "array[%d] is a Python %s although the item type is no %s" % (i, type(e).__name__, shown),
                                expected=TS.show(T, ts), observed=repr(e)[:200])
            if not M.same_value(e, vals[i]):
                raise Violation("P:element_value|pystring", "array[%d] is not the string the value has there" % i, expected=M.jsonable(vals[i]), observed=repr(e)[:200])
            tags.append("element:pystring")
            continue
        else:
            raise Violation("P:element_class", "array[%d] is a %s" % (i, type(e).__name__), observed=repr(e)[:200])
        ok = False
        for ck, ct in cands:
            if ck != kind:
                continue
            if kind == "none":
                ok = True
            elif kind == "scalar":
                ok = ok or _py_scalar_ok(ct[1], e)
            elif kind == "record":
                ok = ok or (TS.show(ct, ts) == shown)
            else:
                ok = ok or (shown == "%d * %s" % (len(e), TS.show(ct, ts)))
        if not ok:
            promised = [("None" if ct is None else (ct[1] if ck == "scalar" else TS.show(ct, ts))) for ck, ct in cands]
            raise Violation("P:element_type|" + kind, "array[%d] has a type the array's type does not promise for its items" % i,
                            expected=promised, observed=[kind, repr(shown)[:200]])
        tags.append("element:" + kind)
    return {"tags": sorted(set(tags)), "nontrivial": _nontrivial_type(T) and n > 0, "sample_class": "P:" + T[0]}


# =========================================================================================== part D
def _build_type(T, TP):
    """extended model type -> C++ Type object through the same constructors the parser uses"""
    k = T[0]
    m = TS.meta(T)
    p = TS.parameters(T)
    ts = m.get("typestr")
    kw = {"parameters": p or None, "typestr": ts}
    if k == "prim":
        return TP.PrimitiveType(T[1], **kw)
    if k == "unknown":
        return TP.UnknownType(**kw)
    if k in ("string", "bytes"):
        inner = TP.PrimitiveType("uint8", parameters={"__array__": "char" if k == "string" else "byte"}, typestr="char" if k == "string" else "byte")
        return TP.ListType(inner, parameters=p, typestr="string" if k == "string" else "bytes")
    if k == "list":
        return TP.ListType(_build_type(T[1], TP), **kw)
    if k == "regular":
        return TP.RegularType(_build_type(T[1], TP), T[2], **kw)
    if k == "option":
        return TP.OptionType(_build_type(T[1], TP), **kw)
    if k == "union":
        return TP.UnionType([_build_type(t, TP) for t in T[1]], **kw)
    if k == "record":
        types = [_build_type(t, TP) for _, t in T[1]]
        if T[2]:
            return TP.RecordType(tuple(types), **kw)
        return TP.RecordType(types, [n for n, _ in T[1]], **kw)
    raise ValueError(T)


def _structure_diff(a, b, path="type"):
    if a["node"] != b["node"]:
        return "%s: %s vs %s" % (path, a["node"], b["node"])
    for k in a:
        if k == "parameters":
            if not MF.json_equal(a[k], b[k]):
                return "%s.parameters: %s vs %s" % (path, json.dumps(a[k])[:150], json.dumps(b[k])[:150])
        elif k == "content":
            r = _structure_diff(a[k], b[k], path + "." + a["node"])
            if r:
                return r
        elif k == "contents":
            if len(a[k]) != len(b[k]):
                return "%s: %d vs %d contents" % (path, len(a[k]), len(b[k]))
            for i, (x, y) in enumerate(zip(a[k], b[k])):
                r = _structure_diff(x, y, "%s.%s[%d]" % (path, a["node"], i))
                if r:
                    return r
        elif a[k] != b[k]:
            return "%s.%s: %r vs %r" % (path, k, a[k], b[k])
    return None


def d_features(case, text):
    """static features of a part-D case that the known-finding predicates speak about"""
    T = case["type"]
    f = set()
    if "\\" in text:
        f.add("escape")
    if "\\\\" in text:
        f.add("escaped_backslash")

    def walk(t, top):
        k = t[0]
        p = TS.parameters(t)
        plain = {key: v for key, v in p.items() if key != "__categorical__"}
        if p.get("__categorical__") is True:
            f.add("categorical")
        if k == "prim" and t[1] not in GF.GRAMMAR_PRIMITIVES:
            f.add("primitive_outside_grammar")
        if k == "record":
            if not t[1]:
                f.add("empty_record")
            if t[3] is not None and len(p) == 1 and TS.is_name(t[3]) and t[3] not in TS.DATASHAPE_KEYWORDS:
                f.add("named_record")
                if t[2]:
                    f.add("named_tuple")
                if not t[3].isalpha() or not t[3].isascii():
                    f.add("record_name_not_letters")
                if t[3] in ("union", "tuple", "struct", "unknown", "parameters", "type"):
                    f.add("record_name_is_grammar_word")
            for _, s in t[1]:
                walk(s, False)
        elif k == "union":
            for s in t[1]:
                walk(s, False)
        elif k == "option":
            if not plain and t[1][0] in ("list", "regular", "string", "bytes"):
                f.add("option_bracket")
            walk(t[1], False)
        elif k == "regular":
            if not plain:
                f.add("regular_bare" if not top else "regular_bare_top")
                if p.get("__categorical__") is True:
                    f.add("categorical_regular_bare")
            walk(t[1], False)
        elif k == "list":
            walk(t[1], False)
        for v in _json_leaves(plain):
            if isinstance(v, float):
                r = json.dumps(v)
                if "e" in r or "E" in r:
                    f.add("number_exponent")
    walk(T, True)
    return f


def _json_leaves(v):
    if isinstance(v, dict):
        for x in v.values():
            for y in _json_leaves(x):
                yield y
    elif isinstance(v, list):
        for x in v:
            for y in _json_leaves(x):
                yield y
    else:
        yield v


def _types_api():
    """(the namespace holding the Type classes, from_datashape): the repository's own `awkward.types`, imported from /repo/src and
    running on the /verif emulation of awkward._ext (tier P).  akshim.typeparser is the stand-alone fallback (a stub package with
    the same classes) for an interpreter in which the package cannot be imported."""
    if os.environ.get("C17_TYPEPARSER_STUB"):
        from akshim import typeparser as TP
        return TP, TP.load()
    from checks import pcommon as P
    A = P.ak()
    return A.types, A.types.from_datashape


def run_D(case, hh):
    TP, parse = _types_api()
    T, length = case["type"], case["length"]
    obj = _build_type(T, TP)
    high_level = length is not None
    if high_level:
        obj = TP.ArrayType(obj, length)
    text = str(obj)
    want = TS.show_array(T, length) if high_level else TS.show(T)
    tags = ["part:D", "D:high_level" if high_level else "D:low_level", "D:profile:" + case.get("profile", "?")] + sorted(GF.type_classes(T))
    if text != want:
        raise Violation("D:print_model|" + T[0], "the printed type differs from the documented datashape rendering", expected=want, observed=text)
    try:
        try:
            parsed = parse(text, high_level)
        except AssertionError:
            # `assert high_level` in parser.py: the text uses a spelling (`option[...]`, `categorical[type=...]`, `Name[...]`) that the
            # parser only reads with high_level=True - a flag the caller is expected to set (tests/test_0773 does so for a bare
            # `Thingy[...]`), not a failure of the round trip.  Asked again the way upstream asks.
            if high_level:
                raise
            tags.append("D:retried_high_level")
            parsed = parse(text, True)
    except HarnessError:
        raise
    except Exception as e:   # the parser's own failures (Lark errors, AssertionError, TypeError from a constructor, ...)
        raise Violation("D:parse_error:" + type(e).__name__, "the type parser fails on a type string printed by the library: %s: %s" % (type(e).__name__, _first_line(str(e))),
                        expected=text, observed=type(e).__name__)
    if not isinstance(parsed, TP.Type):
        raise Violation("D:parse_result", "the parser returned %r" % (parsed,), expected=text)
    again = str(parsed)
    diff = _structure_diff(_tinfo(obj._h), _tinfo(parsed._h))
    if diff:
        raise Violation("D:structure", "parse(print(T)) is a different type: " + diff, expected=text, observed=again)
    if again != text:
        raise Violation("D:reprint", "parse(print(T)) prints differently", expected=text, observed=again)
    if not (parsed == obj) or not (obj == parsed):
        raise Violation("D:not_equal", "parse(print(T)) != T", expected=text, observed=again)
    return {"tags": tags, "nontrivial": _nontrivial_type(T), "sample_class": "D:" + T[0]}


# =========================================================================================== libFuzzer phase (thorough tier)
_FUZZ_SEEDS = [
    b'"float64"', b'{"class":"NumpyArray","primitive":"int32","inner_shape":[2,3],"has_identities":true,"parameters":{"k":[1,2.5,null,{"a":"b"}]},"form_key":"n0"}',
    b'{"class":"NumpyArray","format":"d","itemsize":8}', b'{"class":"EmptyArray"}',
    b'{"class":"ListOffsetArray64","offsets":"i64","content":{"class":"ListArray","starts":"u32","stops":"u32","content":"uint8","parameters":{"__array__":"string"}}}',
    b'{"class":"RegularArray","size":3,"content":{"class":"IndexedOptionArray32","index":"i32","content":"bool"}}',
    b'{"class":"IndexedArray","index":"u32","content":{"class":"RecordArray","contents":{"x":"int64","y":{"class":"ListOffsetArray32","content":"float32"}},"parameters":{"__record__":"Point"}}}',
    b'{"class":"RecordArray","contents":["int8",{"class":"UnmaskedArray","content":"complex128"}]}',
    b'{"class":"ByteMaskedArray","mask":"i8","valid_when":false,"content":"datetime64"}',
    b'{"class":"BitMaskedArray","mask":"u8","valid_when":true,"lsb_order":false,"content":"timedelta64","has_identifier":false}',
    b'{"class":"UnionArray8_U32","tags":"i8","index":"u32","contents":["float16",{"class":"VirtualArray","form":null,"has_length":true}]}',
    b'{"class":"UnionArray","tags":"i8","index":"i64","contents":[]}', b'{"class":"VirtualArray","form":"uint64","has_length":false,"form_key":null}',
    b'{"class":"IndexedArray64","content":"int16","parameters":{"__array__":"categorical","big":1099511627776,"x":-1.5e300,"s":"\\u00e9\\n"}}',
]
_FUZZ_DICT = ["class", "NumpyArray", "EmptyArray", "RegularArray", "ListArray", "ListArray32", "ListArrayU32", "ListArray64", "ListOffsetArray",
              "ListOffsetArray32", "ListOffsetArrayU32", "ListOffsetArray64", "IndexedArray", "IndexedArray32", "IndexedArrayU32", "IndexedArray64",
              "IndexedOptionArray", "IndexedOptionArray32", "IndexedOptionArray64", "ByteMaskedArray", "BitMaskedArray", "UnmaskedArray",
              "RecordArray", "UnionArray", "UnionArray8_32", "UnionArray8_U32", "UnionArray8_64", "VirtualArray", "content", "contents", "form",
              "offsets", "starts", "stops", "index", "tags", "mask", "size", "valid_when", "lsb_order", "has_length", "has_identities",
              "has_identifier", "parameters", "form_key", "primitive", "format", "itemsize", "inner_shape", "i8", "u8", "i32", "u32", "i64",
              "true", "false", "null", "__array__", "__record__", "string", "categorical"] + GF.PRIMITIVES


def fuzz_binary():
    return os.path.join(build_dir("san"), "fuzz_form")


def _fuzz_env():
    from vlib.runner import worker_env
    env = worker_env("san")          # LD_PRELOAD of the shared ASan runtime the target is linked against
    env["ASAN_OPTIONS"] = "detect_leaks=0:abort_on_error=0:detect_odr_violation=0:symbolize=1:allocator_may_return_null=1:quarantine_size_mb=8"
    return env


def _ensure_fuzz_binary():
    from vlib.runner import build
    if not build(["san"], "fuzz_form") or not os.path.exists(fuzz_binary()):
        raise HarnessError("fuzz target %s could not be built (make FLAVOUR=san fuzz_form)" % fuzz_binary())


def _run_with_heartbeat(cmd, env, errpath, limit):
    """run a long child process; while it runs, touch this worker's slot file so that the runner's per-case watchdog (which looks at the
    slot's age) does not take a fuzzing campaign of several minutes for a hang.  libFuzzer's own -timeout guards single inputs;
    `limit` seconds bounds the whole campaign.  -> (stderr text, return code)"""
    import time
    slot = (sys.argv[6] + ".slot") if len(sys.argv) > 6 and sys.argv[0].endswith("worker.py") else None
    with open(errpath, "wb") as ef:
        proc = subprocess.Popen(cmd, stdout=subprocess.DEVNULL, stderr=ef, env=env)
        t0 = time.time()
        while True:
            try:
                rc = proc.wait(timeout=10)
                break
            except subprocess.TimeoutExpired:
                if slot is not None and os.path.exists(slot):
                    os.utime(slot, None)
                if time.time() - t0 > limit:
                    proc.kill()
                    proc.wait()
                    raise HarnessError("fuzz_form did not finish its %s within %d s" % (cmd[1], limit))
    with open(errpath, "rb") as f:
        return f.read().decode("utf-8", "replace"), rc


def _fuzz_what(err, rc):
    m = re.search(r"(ORACLE: [^\n]*|SUMMARY: [^\n]*|runtime error: [^\n]*)", err)
    return m.group(1) if m else "exit status %d" % rc


def run_fuzz(case):
    exe = fuzz_binary()
    _ensure_fuzz_binary()
    work = tempfile.mkdtemp(prefix="fuzz_form_", dir=build_dir("san"))
    corpus = os.path.join(work, "corpus")
    os.makedirs(corpus)
    for i, s in enumerate(_FUZZ_SEEDS):
        with open(os.path.join(corpus, "seed%02d" % i), "wb") as f:
            f.write(s)
    with open(os.path.join(work, "dict"), "w") as f:
        for w in _FUZZ_DICT:
            f.write('"\\"%s\\""\n' % w)
    cmd = [exe, "-runs=%d" % case["runs"], "-seed=%d" % case["seed"], "-max_len=%d" % case["max_len"], "-artifact_prefix=" + work + "/",
           "-dict=" + os.path.join(work, "dict"), "-print_final_stats=1", "-timeout=20", "-rss_limit_mb=4096", corpus]
    try:
        err, rc = _run_with_heartbeat(cmd, _fuzz_env(), os.path.join(work, "stderr.txt"), limit=3000)
        stats = dict(re.findall(r"stat::(\w+):\s+(\d+)", err))
        counts = {"fuzz_executions": int(stats.get("number_of_executed_units", 0)), "fuzz_new_units": int(stats.get("new_units_added", 0))}
        arts = sorted(glob.glob(os.path.join(work, "crash-*")) + glob.glob(os.path.join(work, "timeout-*")) + glob.glob(os.path.join(work, "oom-*")))
        if rc != 0 or arts:
            data = open(arts[0], "rb").read() if arts else b""
            what = _fuzz_what(err, rc)
            sub = {"part": "FI", "text": base64.b64encode(data).decode("ascii")}
            vio = {"bucket": "fuzz:" + what[:60], "message": "fuzz_form: " + what, "expected": None, "observed": err[-1500:], "clause": None}
            try:
                from vlib.runner import write_replay
                rp = write_replay(ID, "san", sub, vio, case["seed"])
            except Exception as e:   # noqa: B902
                rp = "replay not written: %r" % (e,)
            raise Violation("fuzz:" + what[:60], "libFuzzer target fuzz_form failed (%s); input saved as %s" % (what, rp),
                            expected=sub, observed=err[-1500:])
    finally:
        shutil.rmtree(work, ignore_errors=True)
    return {"tags": ["part:fuzz"], "counts": counts, "nontrivial": False, "sample_class": "fuzz"}


def run_fuzzinput(case):
    """one stored input of the libFuzzer target (replay of a fuzz finding)"""
    exe = fuzz_binary()
    _ensure_fuzz_binary()
    d = tempfile.mkdtemp(prefix="fuzz_form_in_", dir=build_dir("san"))
    path = os.path.join(d, "input")
    with open(path, "wb") as f:
        f.write(base64.b64decode(case["text"]))
    try:
        p = subprocess.run([exe, path], capture_output=True, env=_fuzz_env(), timeout=120)
    finally:
        shutil.rmtree(d, ignore_errors=True)
    if p.returncode != 0:
        err = p.stderr.decode("utf-8", "replace")
        raise Violation("fuzz:" + _fuzz_what(err, p.returncode)[:60], "fuzz_form fails on this input", observed=err[-1500:])
    return {"tags": ["part:fuzzinput"], "nontrivial": False, "sample_class": "fuzz"}


# =========================================================================================== dispatch
def run_case(case):
    hh = H()
    try:
        part = case["part"]
        if part == "A":
            return run_A(case, hh)
        if part == "B":
            return run_B(case, hh)
        if part == "M":
            return run_M(case, hh)
        if part == "C":
            return run_C(case, hh)
        if part == "D":
            return run_D(case, hh)
        if part == "P":
            return run_P(case, hh)
        if part == "F":
            return run_fuzz(case)
        if part == "FI":
            return run_fuzzinput(case)
        raise HarnessError("unknown part %r" % (part,))
    finally:
        hh.close()


# =========================================================================================== known findings (narrow predicates)
def _numpy_nodes(j, acc):
    if isinstance(j, dict):
        if j.get("class") == "NumpyArray":
            acc.append(j)
        for key in ("content", "form"):
            _numpy_nodes(j.get(key), acc)
        cs = j.get("contents")
        for c in (cs.values() if isinstance(cs, dict) else cs if isinstance(cs, list) else []):
            _numpy_nodes(c, acc)
    return acc


def _format_not_canonical(node):
    fmt = node.get("format")
    if not isinstance(fmt, str):
        return False
    prim = MF.primitive_of_format(fmt, node.get("itemsize"))
    return prim is not None and MF.CANONICAL_FORMAT.get(prim) != fmt


def known_numpyform_format(case, vio):
    """a NumpyForm's `format` is replaced by the canonical format of its `primitive` when its JSON is read back (byte-order
    prefixes, alternative letters and - harmfully - the unit of datetime64/timedelta64 are lost; a format the library does not
    recognise is printed as primitive "unknown", which the reader refuses)"""
    part, _, what = vio["bucket"].partition(":")
    if part not in ("B", "M"):
        return False
    if not (what.startswith(("read|primitive", "read|format", "print|primitive", "reread|format", "reread|primitive", "reread_refused", "equal:", "type_survives"))):
        return False
    try:
        j = case["json"] if part == "B" else json.loads(case["text"])
    except ValueError:
        return False
    return any(_format_not_canonical(n) for n in _numpy_nodes(j, []))


def _d_text(case):
    T = case["type"]
    return TS.show_array(T, case["length"]) if case["length"] is not None else TS.show(T)


def known_typeparser_toplevel_regular(case, vio):
    """a RegularType at the top of a type whose text needs high_level=True comes back as an ArrayType (the only other call asserts)"""
    if case["part"] != "D" or vio["bucket"] != "D:structure" or case["length"] is not None:
        return False
    f = d_features(case, _d_text(case))
    return "regular_bare_top" in f and bool(f & {"categorical", "option_bracket", "named_record"}) and vio["message"].endswith("type: regular vs array")


def known_typeparser_grammar_gaps(case, vio):
    """type-grammar.lark has no production for: primitives other than its TYPE list (float16, float128, complex*, datetime64,
    timedelta64), records/tuples/unions without members, named tuples, record names that are not purely letters or that are
    grammar words"""
    if case["part"] != "D":
        return False
    f = d_features(case, _d_text(case))
    if "record_name_is_grammar_word" in f and vio["bucket"] in ("D:structure", "D:reprint", "D:not_equal"):
        return True        # `union[...]`, `tuple[...]`, `struct[...]` printed for a record of that name are read as the grammar's own construct
    if not vio["bucket"].startswith("D:parse_error:Unexpected"):
        return False
    return bool(f & {"primitive_outside_grammar", "empty_record", "named_tuple", "record_name_not_letters", "record_name_is_grammar_word"})


def known_typeparser_escaped_backslash(case, vio):
    """the string token of type-grammar.lark has no alternative for an escaped backslash: a type string with a backslash in a key, a
    parameter name or a parameter string is refused by the lexer"""
    if case["part"] != "D" or not vio["bucket"].startswith("D:parse_error:Unexpected"):
        return False
    return "escaped_backslash" in d_features(case, _d_text(case))


KNOWN = {
    "numpyform_format_lost": known_numpyform_format,
    "typeparser_toplevel_regular": known_typeparser_toplevel_regular,
    "typeparser_grammar_gaps": known_typeparser_grammar_gaps,
    "typeparser_escaped_backslash": known_typeparser_escaped_backslash,
}
