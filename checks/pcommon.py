"""Helpers for tier-P checks: the unmodified /repo/src/awkward Python layer running on the akshim emulation of
awkward._ext (see akshim/ext.py).  Results are read back through the independent evaluator (describe + decode) and,
as a cross-check, through ak.to_list."""
import warnings

import numpy as np

from akmodel import core as M
from akshim import describe as D
from vlib.common import Violation, HarnessError

_AK = [None]


def ak():
    if _AK[0] is None:
        warnings.simplefilter("ignore")
        from akshim import ext
        _AK[0] = ext.install()
    return _AK[0]


def harray(desc, buffers=None):
    """description -> ak.Array over a freshly built layout"""
    return ak().Array(D.build(desc, buffers))


def snapshot(buffers):
    return [b.tobytes() for b in buffers]


def check_purity(buffers, snaps, what):
    for b, s in zip(buffers, snaps):
        if b.tobytes() != s:
            raise Violation("purity:%s" % what, "an input buffer was modified by %s" % what, clause="C12-purity")


def pyvalue(x):
    """what ak.to_list gives, normalised (numpy scalars -> Python scalars)"""
    if isinstance(x, np.generic) and not isinstance(x, (np.datetime64, np.timedelta64)):
        return x.item()
    if isinstance(x, list):
        return [pyvalue(e) for e in x]
    if isinstance(x, tuple):
        return tuple(pyvalue(e) for e in x)
    if isinstance(x, dict):
        return {k: pyvalue(v) for k, v in x.items()}
    return x


def read(x, what="", check_valid=True):
    """(T, value) of a high-level result (ak.Array / ak.Record / scalar / layout).  Raises Violation when the result is
    an invalid array (C11 closure) or when ak.to_list disagrees with the independent evaluator."""
    A = ak()
    from akshim import layout as L
    lay = x
    if isinstance(x, (A.Array, A.Record)):
        lay = x.layout
    if isinstance(lay, A.partition.PartitionedArray):
        lay = lay.toContent()
    if isinstance(lay, L.Content):
        if check_valid and not isinstance(lay, L.Record):
            err = lay.validityerror()
            if err is not None:
                raise Violation("closure:%s" % what, "result of %s is an invalid array: %s" % (what, err[:300]), clause="C11-closure")
        try:
            T, v = D.value_of(lay)
        except (M.Invalid, ValueError) as e:
            # ValueError: the library refuses to walk its own result (e.g. a negative length)
            raise Violation("closure:%s:unevaluable" % what, "result of %s cannot be evaluated: %s" % (what, e), clause="C11-closure")
        if isinstance(x, (A.Array, A.Record)):
            pv = pyvalue(A.to_list(x))
            if not M.same_value(pv, v):
                raise Violation("tolist:%s" % what, "ak.to_list of the result of %s differs from its buffers read directly" % what,
                                expected=M.jsonable(v), observed=M.jsonable(pv))
        return T, v
    return None, pyvalue(x)


def _is_shim_class(name):
    import importlib
    for modname in ("akshim.typesforms", "akshim.virtual", "akshim.builder", "akshim.jsonio", "akshim.forth"):
        try:
            if hasattr(importlib.import_module(modname), name):
                return True
        except ImportError:
            pass
    return False


def outcome(fn):
    """('ok', result) | (exception class name, message) for exceptions raised by the library.
    Exceptions whose innermost frame is harness code, and AttributeError / NotImplementedError (gaps of the _ext
    emulation), propagate: they are harness errors, never attributed to the code under test."""
    import traceback
    from akshim.core import BridgeMisuse
    from vlib.common import REPO
    try:
        return ("ok", fn())
    except (BridgeMisuse, HarnessError, Violation):
        raise
    except NotImplementedError as e:
        if "is not available in the /verif emulation" in str(e) or "not supported by the /verif emulation" in str(e):
            raise
        frames = traceback.extract_tb(e.__traceback__)
        inner = frames[-1].filename if frames else ""
        if "/akshim/" in inner:
            raise
        return (type(e).__name__, str(e))     # e.g. pyarrow.lib.ArrowNotImplementedError
    except AttributeError as e:
        # a missing attribute of one of the emulation's own classes is a gap of the emulation (harness error);
        # an AttributeError about any other object, raised in the library's code, is the library's
        import re
        from akshim import layout as L
        m = re.match(r"'(\w+)' object has no attribute", str(e))
        frames = traceback.extract_tb(e.__traceback__)
        inner = frames[-1].filename if frames else ""
        if m and inner.startswith(REPO) and m.group(1) not in L._CLASSES and not hasattr(L, m.group(1)) and not _is_shim_class(m.group(1)):
            return (type(e).__name__, str(e))
        # attributes that the real binding does not have either (checked against src/python/content.cpp: toIndexedOptionArray64
        # is defined for ByteMaskedArray, BitMaskedArray and UnmaskedArray only): the library's own AttributeError
        m2 = re.match(r"'(IndexedOptionArray32|IndexedOptionArray64|IndexedArray32|IndexedArrayU32|IndexedArray64)' object has no attribute 'toIndexedOptionArray64'", str(e))
        if m2 and inner.startswith(REPO):
            return (type(e).__name__, str(e))
        raise
    except Exception as e:  # noqa: B902
        frames = traceback.extract_tb(e.__traceback__)
        inner = frames[-1].filename if frames else ""
        native = type(e).__name__ in ("ValueError", "RuntimeError", "OtherNativeError") and "/akshim/core.py" in inner
        if inner.startswith(REPO) or native or "/site-packages/numpy" in inner or "/site-packages/pyarrow" in inner or inner.startswith("pyarrow/") or "/site-packages/numba" in inner:
            return (type(e).__name__, str(e))
        raise
