"""C13 - every compiled CPU kernel computes what its Python specification computes.

Tier K: ctypes on libawkward-cpu-kernels.so; the oracle is the `definition` of
kernel-specification.yml executed on index-recording lists.
"""
import collections
import ctypes
import json
import math
import os
import re
import signal

import numpy as np
import yaml
from hypothesis import strategies as st

from vlib.common import REPO, Violation, HarnessError, build_dir

ID = "C13"
MANIFEST = {
    "technique": "property-based differential testing (Hypothesis): compiled kernel vs. executed YAML definition on role-aware generated tuples, exact-extent buffers with canaries, ASan/UBSan twin",
    "level_text": "Generated-input exploration: every specialization of every kernel with an executable definition is called on thousands of role-aware argument tuples and compared element by element (status, outputs, extents, input purity) with its Python definition; held on everything generated, no claim of absence.",
    "level_note": "Trusted: the YAML definitions as specification (three textual normalisations listed in evidence.assumptions), ctypes marshalling, the role-aware generator's notion of in-domain tuples. Kernels without an executable definition are only covered through the library-level checks.",
}
BUILD_TARGETS = "kernels"
RULE = ("case = one kernel of kernel-specification.yml + one role-aware argument tuple, run on every specialization whose C types can "
        "represent the tuple; oracle = the YAML `definition` executed on index-recording lists (error status, extents, every written "
        "output element), plus agreement between specializations; non-trivial = the definition executed in-domain and wrote >=1 "
        "output element (or raised the documented ValueError) with all list arguments non-empty, or a width extreme / zero-length corner was drawn; distinct by hash of (kernel, tuple)")
EXPLANATION = ("inputs are exact-size numpy buffers; outputs are exact-size with 64-element canary zones (plain flavour) or exact-size under ASan (san flavour). "
               "Kernels without an executable definition are checked by checks/c13 'nodef' sub-oracles (sorted permutation, itertools, copies).")
ASSUMPTIONS = ["the YAML `definition` text is the specification (after normalising `out = expr` to `out[0] = expr`)",
               "tuples on which the definition raises anything but ValueError, or does not terminate in 0.5 s, are outside its domain (discarded, counted)",
               "preconditions listed in checks/c13_preconditions.py"]
PLAN = {
    "quick": [{"flavour": "plain", "cases": 40000}, {"flavour": "san", "cases": 12000}],
    "thorough": [{"flavour": "plain", "cases": 600000}, {"flavour": "san", "cases": 600000}],
}
WALL_CAP = {"quick": 600, "thorough": 3300}

CT = {"bool": ctypes.c_bool, "int8_t": ctypes.c_int8, "uint8_t": ctypes.c_uint8, "int16_t": ctypes.c_int16, "uint16_t": ctypes.c_uint16,
      "int32_t": ctypes.c_int32, "uint32_t": ctypes.c_uint32, "int64_t": ctypes.c_int64, "uint64_t": ctypes.c_uint64,
      "float": ctypes.c_float, "double": ctypes.c_double}
NPT = {"bool": np.bool_, "int8_t": np.int8, "uint8_t": np.uint8, "int16_t": np.int16, "uint16_t": np.uint16, "int32_t": np.int32,
       "uint32_t": np.uint32, "int64_t": np.int64, "uint64_t": np.uint64, "float": np.float32, "double": np.float64}
GUARD = 64


class ERROR(ctypes.Structure):
    _fields_ = [("str", ctypes.c_char_p), ("filename", ctypes.c_char_p), ("id", ctypes.c_int64),
                ("attempt", ctypes.c_int64), ("pass_through", ctypes.c_bool)]


def base(t):
    return t.replace("Const[", "").replace("List[", "").replace("]", "")


def islist(t):
    return "List[" in t


SPEC = yaml.safe_load(open(os.path.join(REPO, "kernel-specification.yml")))
KERNELS = {k["name"]: k for k in SPEC["kernels"]}
WITH_DEF = sorted(name for name, k in KERNELS.items() if "def " in (k["definition"] or "")
                  and not any("List[List" in a["type"] for s in k["specializations"] for a in s["args"]))
NS = {}
# uint8(x): the definitions use it only to spell the bit constants of the bit-mask kernels ("byte & uint8(128)").  NumPy 2
# raises OverflowError when a Python int that has outgrown 8 bits ("byte <<= 1") meets a numpy uint8, which made every
# most-significant-bit-first case with a high bit set look "outside the definition's domain"; a plain masked int keeps the
# C meaning (bit 7 of the unbounded integer is bit 7 of the wrapped byte).
exec("def uint8(x):\n    return int(x) & 0xFF\nkMaxInt64 = 9223372036854775806\nkSliceNone = kMaxInt64 + 1\n", NS)
NORMALISED = set()
for _name in WITH_DEF:
    _k = KERNELS[_name]
    _d = _k["definition"]
    _outs = sorted({a["name"] for sp in _k["specializations"] for a in sp["args"] if a["dir"] == "out" and islist(a["type"])})
    _d2 = _d
    for _on in _outs:
        _d2 = re.sub(r"(?m)^(\s+)" + re.escape(_on) + r"\s*=\s*(?!=)", r"\1" + _on + "[0] = ", _d2)
    _d3 = re.sub(r"\bfloat\(", "(", _d2)     # C++ casts left over by the translation; range(float) is not executable
    if _d3 != _d:
        NORMALISED.add(_name)
    _d2 = _d3
    exec(_d2, NS)

from checks import c13_preconditions as PRE  # noqa: E402


class Rec(list):
    """list that records what is read/written; outputs grow on write"""

    def __init__(self, data=(), out=False, writable=False):
        list.__init__(self, data)
        self.out = out
        self.writable = writable or out
        self.maxr = -1
        self.maxw = -1
        self.written = set()

    def __getitem__(self, i):
        if isinstance(i, slice):
            raise TypeError("slice")
        if not isinstance(i, (int, np.integer)):
            raise TypeError("index type")
        if i < 0:
            raise IndexError("negative read")
        if self.out and i not in self.written:
            raise KeyError("read of unwritten output")
        if i > self.maxr:
            self.maxr = i
        return list.__getitem__(self, i)

    def __setitem__(self, i, v):
        if not isinstance(i, (int, np.integer)):
            raise TypeError("index type")
        if i < 0:
            raise IndexError("negative write")
        if not self.writable:
            raise TypeError("write to input")
        if self.out:
            while len(self) <= i:
                list.append(self, 0)
        if i > self.maxw:
            self.maxw = i
        self.written.add(int(i))
        list.__setitem__(self, i, v)


LAST_MESSAGE = [""]


class SpecHang(BaseException):
    pass


def _onalarm(*a):
    raise SpecHang()


# ------------------------------------------------------------------ generation
def _arginfo(kname):
    """per argument name: list/scalar, dir, role, set of base types over the specializations"""
    k = KERNELS[kname]
    info = collections.OrderedDict()
    for s in k["specializations"]:
        for a in s["args"]:
            e = info.setdefault(a["name"], {"list": islist(a["type"]), "dir": a["dir"], "role": a.get("role") or "default",
                                            "types": set(), "const": a["type"].startswith("Const")})
            e["types"].add(base(a["type"]))
    return info


ARGINFO = {name: _arginfo(name) for name in KERNELS}

small_floats = st.integers(-16, 16).map(lambda k: k / 4.0)


@st.composite
def arg_tuple(draw, kname):
    info = ARGINFO[kname]
    n = draw(st.sampled_from([0, 1, 1, 2, 3, 3, 4, 5, 7]))
    m = draw(st.sampled_from([0, 1, 2, 3, 5, 8]))            # length of the "content" that indexes point into
    groups = {}
    args = {}
    hints = PRE.HINTS.get(kname, {})

    def listlen(extra=0):
        slack = draw(st.sampled_from([0, 0, 0, 1, 2]))
        return n + extra + slack

    for name, e in info.items():
        role = e["role"]
        grp, _, member = role.partition("-")
        types = e["types"]
        isfloat = bool(types & {"float", "double"})
        isbool = types == {"bool"}
        unsigned_only = all(t.startswith("uint") for t in types)
        h = hints.get(name)
        if e["list"] and e["dir"] == "out":
            # initial content, used only if the definition turns out to read this argument before writing it (in/out)
            L0 = n + draw(st.sampled_from([0, 0, 1, 2]))
            args[name] = None
            args["init:" + name] = draw(st.lists(st.integers(0 if any(t.startswith("uint") for t in types) else -1, max(n, m, 1) - 1 if max(n, m) > 0 else 0), min_size=L0, max_size=L0))
            continue
        if h is not None:
            args[name] = draw(PRE.hint_strategy(h, n, m, args))
            continue
        if not e["list"]:
            if isbool:
                args[name] = draw(st.booleans())
            elif isfloat and not (types - {"float", "double"}):
                args[name] = draw(small_floats)
            elif member in ("size",):
                args[name] = draw(st.integers(0, 4))
            elif member in ("which",):
                args[name] = draw(st.integers(0, 2))
            elif member in ("outlength",):
                args[name] = ("outlength", draw(st.integers(0, 2)))
            elif member in ("lenparents", "length", "nextlen", "startslength", "outindexlength", "lendistincts"):
                args[name] = ("len", draw(st.sampled_from([0, 0, 0, 0, -1, 1])))
            elif member in ("index-offset", "at"):
                args[name] = draw(st.integers(0, 3)) if member == "index-offset" else draw(st.integers(-m - 1, m + 1))
            elif member in ("identity",):
                args[name] = draw(st.integers(-3, 3))
            elif member in ("maxcount",):
                args[name] = draw(st.integers(0, 4))
            elif name == "base" and draw(st.integers(0, 5)) == 0:
                # index movers: full-width extremes (the definition is exact on Python integers)
                args[name] = draw(st.sampled_from([2 ** 31 - 2, 2 ** 31, 2 ** 32 - 2, 2 ** 32 + 5, 2 ** 40]))
            else:
                args[name] = ("scalar", draw(st.sampled_from([n, n, n, n, m, 0, 1, 2, n + 1, max(n - 1, 0)])), draw(st.integers(0, 99)))
            continue
        # lists
        if member in ("offsets", "rawoffsets"):
            L = listlen(1)
            start = draw(st.sampled_from([0, 0, 1, 3]))
            steps = draw(st.lists(st.integers(0, 3), min_size=L, max_size=L))
            vals = []
            acc = start
            for s_ in steps:
                vals.append(acc)
                acc += s_
            args[name] = vals
            groups.setdefault(grp, {})["offsets"] = vals
        elif member == "starts":
            L = listlen()
            starts = draw(st.lists(st.integers(0, m), min_size=L, max_size=L))
            args[name] = starts
            groups.setdefault(grp, {})["starts"] = starts
        elif member == "stops":
            starts = groups.get(grp, {}).get("starts")
            if starts is None:
                L = listlen()
                args[name] = draw(st.lists(st.integers(0, m), min_size=L, max_size=L))
            else:
                cnts = draw(st.lists(st.integers(0, 3), min_size=len(starts), max_size=len(starts)))
                proper = draw(st.integers(0, 9)) > 0
                args[name] = [min(s + c, m) if proper else s + c - 1 for s, c in zip(starts, cnts)]
        elif member == "parents":
            L = listlen()
            steps = draw(st.lists(st.sampled_from([0, 0, 0, 1, 1, 2]), min_size=L, max_size=L))
            acc = 0
            vals = []
            for s_ in steps:
                acc += s_
                vals.append(acc)
            args[name] = vals
            groups.setdefault("reducer", {})["parents"] = vals
        elif member == "tags":
            L = listlen()
            args[name] = draw(st.lists(st.integers(0, 2), min_size=L, max_size=L))
        elif member in ("mask",) and grp.startswith("BitMasked"):
            L = listlen()
            args[name] = draw(st.lists(st.integers(0, 255), min_size=L, max_size=L))
        elif member in ("mask",):
            L = listlen()
            args[name] = draw(st.lists(st.sampled_from([0, 1, 1, 0, 2, -1] if not unsigned_only else [0, 1, 1, 0, 2]), min_size=L, max_size=L))
        elif isbool:
            L = listlen()
            args[name] = draw(st.lists(st.booleans(), min_size=L, max_size=L))
        elif isfloat and member in ("fromptr", "ptr", "default"):
            L = listlen()
            args[name] = draw(st.lists(small_floats if len(types - {"float", "double"}) == 0 else st.integers(-6, 6), min_size=L, max_size=L))
        elif member in ("fromptr", "ptr", "array"):
            L = listlen()
            lo = 0 if unsigned_only or any(t.startswith("uint") for t in types) else -6
            args[name] = draw(st.lists(st.integers(lo, 6), min_size=L, max_size=L))
        elif member in ("index", "nextcarry", "nextparents", "carry"):
            L = listlen()
            unsigned = any(t.startswith("uint") for t in types)
            lo = 0 if unsigned else -1
            inrange = draw(st.integers(0, 9)) > 0
            vals = draw(st.lists(st.integers(lo, max(lo, (m - 1) if inrange else m + 1)), min_size=L, max_size=L))
            # "any negative index is missing": not only -1 (added after the seeded change C13-a, which treated only -1 as
            # missing, was not met); for unsigned index types the largest representable value takes that corner
            if member == "index" and L > 0 and draw(st.integers(0, 3)) == 0:
                k = draw(st.integers(0, L - 1))
                if not unsigned:
                    vals[k] = draw(st.sampled_from([-2, -3, -7, -(2 ** 31)]))
                elif any(t == "uint32_t" for t in types):
                    vals[k] = 2 ** 32 - 1
            args[name] = vals
        else:
            L = listlen()
            lo = 0 if any(t.startswith("uint") for t in types) else -1
            args[name] = draw(st.lists(st.integers(lo, max(n, m) + 1), min_size=L, max_size=L))
    # resolve symbolic scalars
    interesting = set()
    for name, v in args.items():
        if isinstance(v, list) and not name.startswith("init:") and v and all(isinstance(x, int) and not isinstance(x, bool) for x in v):
            interesting.update([len(v), max(v), max(v) + 1])
    interesting = sorted(x for x in interesting if 0 <= x <= 12)
    for name, v in list(args.items()):
        if isinstance(v, tuple) and v[0] == "scalar":
            # boundary bias: a length-like scalar often coincides with a list's length or its largest element (+1)
            if interesting and v[2] < 35:
                args[name] = interesting[v[2] % len(interesting)]
            else:
                args[name] = v[1]
    for name, v in list(args.items()):
        if isinstance(v, tuple):
            if v[0] == "outlength":
                parents = groups.get("reducer", {}).get("parents") or []
                args[name] = (max(parents) + 1 if parents else 0) + v[1]
            elif v[0] == "len":
                args[name] = max(0, n + v[1])
    return {"kernel": kname, "n": n, "m": m, "args": args}


def strategy(tier):
    names = [k for k in WITH_DEF if k not in PRE.SKIP]
    return st.sampled_from(names).flatmap(arg_tuple)


# ------------------------------------------------------------------ execution
LIB = None
FLAVOUR = "plain"


def setup(flavour, tier):
    global LIB, FLAVOUR
    FLAVOUR = flavour
    LIB = ctypes.CDLL(os.path.join(build_dir(flavour), "libawkward-cpu-kernels.so"))


def run_definition(kname, args, inout=()):
    """returns (outcome, recs) where outcome in ok / valueerror / discard:<why>"""
    info = ARGINFO[kname]
    vals = {}
    for name, e in info.items():
        if e["list"]:
            if e["dir"] == "out" and name in inout:
                vals[name] = Rec(args["init:" + name], writable=True)
                vals[name].inout = True
            elif e["dir"] == "out":
                vals[name] = Rec(out=True)
            else:
                vals[name] = Rec(args[name], writable=not e["const"])
        else:
            vals[name] = args[name]
    f = NS[kname]
    old = signal.signal(signal.SIGALRM, _onalarm)
    signal.setitimer(signal.ITIMER_REAL, 0.5)
    try:
        f(**vals)
        outcome = "ok"
    except SpecHang:
        outcome = "discard:spec_did_not_terminate"
    except ValueError as e:
        outcome = "valueerror"
        LAST_MESSAGE[0] = str(e)
    except KeyError:
        outcome = "retry_inout"
    except (IndexError, ZeroDivisionError, NameError, TypeError, OverflowError, AttributeError) as e:
        outcome = "discard:" + type(e).__name__
    finally:
        signal.setitimer(signal.ITIMER_REAL, 0)
        signal.signal(signal.SIGALRM, old)
    if outcome == "retry_inout":
        unwritten_read = [name for name, v in vals.items() if isinstance(v, Rec) and v.out]
        if set(unwritten_read) <= set(inout):
            return "discard:KeyError", vals
        return run_definition(kname, args, inout=tuple(unwritten_read))
    return outcome, vals


def representable(v, b):
    if b == "bool":
        return isinstance(v, (bool, np.bool_)) or v in (0, 1)
    if b in ("float", "double"):
        if isinstance(v, float) and (math.isnan(v) or math.isinf(v)):
            return True
        return float(np.dtype(NPT[b]).type(v)) == float(v)
    if isinstance(v, float):
        if v != int(v):
            return False
        v = int(v)
    ii = np.iinfo(NPT[b])
    return ii.min <= int(v) <= ii.max


def same(exp, got, b):
    if b == "bool":
        return bool(exp) == bool(got)
    if b in ("float", "double"):
        e = float(np.dtype(NPT[b]).type(exp)) if not isinstance(exp, complex) else exp
        g = float(got)
        if isinstance(e, float) and math.isnan(e):
            return math.isnan(g)
        return e == g
    if isinstance(exp, (bool, np.bool_)):
        exp = int(exp)
    if isinstance(exp, float):
        if exp != int(exp):
            return False
        exp = int(exp)
    return int(exp) == int(got)


def call_spec(spec, args, vals, outcome):
    """returns None if this specialization cannot represent the tuple; raises Violation on disagreement"""
    kname = args["kernel"]
    # C++ leaves float -> unsigned conversion of a negative value undefined: not in any kernel's domain
    has_unsigned_out = any(islist(a["type"]) and a["dir"] == "out" and base(a["type"]).startswith("uint") for a in spec["args"])
    if has_unsigned_out:
        for a in spec["args"]:
            if islist(a["type"]) and a["dir"] == "in" and base(a["type"]) in ("float", "double"):
                if any(x < 0 for x in args["args"][a["name"]]):
                    return None
    cargs = []
    keep = []
    outs = []
    ins_writable = []
    for a in spec["args"]:
        t = a["type"]
        b = base(t)
        v = vals[a["name"]]
        if islist(t):
            if a["dir"] == "out" and getattr(v, "inout", False):
                data = args["args"]["init:" + a["name"]]
                if not all(representable(x, b) for x in data):
                    return None
                arr = np.array(data, dtype=NPT[b]) if len(data) else np.zeros(0, dtype=NPT[b])
                keep.append(arr)
                ins_writable.append((a["name"], arr, v, b))
                cargs.append(ctypes.cast(arr.ctypes.data if len(data) else 0, ctypes.POINTER(CT[b])))
            elif a["dir"] == "out":
                ext = max(v.maxw, v.maxr) + 1
                buf = np.zeros(ext + 2 * GUARD, dtype=NPT[b])
                canary = np.dtype(NPT[b]).type(1) if b == "bool" else np.dtype(NPT[b]).type(77)
                buf[:] = canary
                if FLAVOUR == "san":
                    arr = np.full(ext, canary, dtype=NPT[b])
                    ptr = arr.ctypes.data if ext > 0 else 0
                    buf = None
                else:
                    arr = buf[GUARD:GUARD + ext]
                    ptr = arr.ctypes.data if ext > 0 else buf[GUARD:].ctypes.data
                outs.append((a["name"], arr, buf, v, b, canary, ext))
                keep.append((arr, buf))
                cargs.append(ctypes.cast(ptr, ctypes.POINTER(CT[b])))
            else:
                data = args["args"][a["name"]]
                if not all(representable(x, b) for x in data):
                    return None
                arr = np.array(data, dtype=NPT[b]) if len(data) else np.zeros(0, dtype=NPT[b])
                arr = arr.copy()
                keep.append(arr)
                if not t.startswith("Const"):
                    ins_writable.append((a["name"], arr, v, b))
                else:
                    ins_writable.append((a["name"], arr, None, b))
                cargs.append(ctypes.cast(arr.ctypes.data if len(data) else 0, ctypes.POINTER(CT[b])))
        else:
            if not representable(v, b):
                return None
            if b not in ("float", "double", "bool") and isinstance(v, float):
                v = int(v)
            cargs.append(CT[b](v))
    try:
        fn = getattr(LIB, spec["name"])
    except AttributeError:
        raise Violation("missing_symbol:" + spec["name"], "specialization %s is not exported by libawkward-cpu-kernels.so" % spec["name"])
    fn.restype = ERROR
    before = [(name, arr.copy()) for name, arr, v, b in ins_writable]
    err = fn(*cargs)
    cerr = err.str is not None
    if cerr != (outcome == "valueerror"):
        raise Violation("status:" + kname, "%s: definition %s but kernel %s" % (
            spec["name"], "raises ValueError" if outcome == "valueerror" else "succeeds",
            ("fails with %r" % err.str) if cerr else "succeeds"),
            expected=outcome, observed=(err.str.decode("utf-8", "replace") if cerr else "ok"))
    # inputs: Const ones must be untouched; writable ones must equal the definition's final state
    for (name, arr, v, b), (_, orig) in zip(ins_writable, before):
        if v is None or not v.written:
            if arr.tobytes() != orig.tobytes():
                raise Violation("input_modified:" + kname, "%s: input %s was modified by the kernel" % (spec["name"], name),
                                expected=orig.tolist(), observed=arr.tolist(), clause="C12-purity")
        elif outcome == "ok":
            for i in sorted(v.written):
                if not same(list.__getitem__(v, i), arr[i], b):
                    raise Violation("value:" + kname, "%s: in/out %s[%d] differs" % (spec["name"], name, i),
                                    expected=list(v), observed=arr.tolist())
    if outcome == "ok":
        for name, arr, buf, v, b, canary, ext in outs:
            for i in sorted(v.written):
                exp = list.__getitem__(v, i)
                if not (representable(exp, b) if not isinstance(exp, (bool, np.bool_)) else True):
                    return "unrepresentable_output"
                if not same(exp, arr[i], b):
                    raise Violation("value:" + kname, "%s: %s[%d] differs from the definition" % (spec["name"], name, i),
                                    expected=[list.__getitem__(v, j) if j in v.written else None for j in range(ext)],
                                    observed=arr.tolist())
    for name, arr, buf, v, b, canary, ext in outs:
        if buf is not None:
            if not (buf[:GUARD] == canary).all() or not (buf[GUARD + ext:] == canary).all():
                raise Violation("extent:" + kname, "%s: wrote outside the extent of %s that the definition touches (%d elements)" % (spec["name"], name, ext),
                                clause="C12-memory")
    return "compared"


def improper_lists(kname, args):
    info = ARGINFO[kname]
    starts = {}
    for name, e in info.items():
        grp, _, member = e["role"].partition("-")
        if member in ("starts", "stops") and isinstance(args.get(name), list):
            starts.setdefault(grp, {})[member] = args[name]
    for g in starts.values():
        if "starts" in g and "stops" in g:
            if any(b < a for a, b in zip(g["starts"], g["stops"])):
                return True
    # by naming convention for arguments without a role
    names = [n for n in args if n.endswith("starts") and isinstance(args[n], list)]
    for n in names:
        other = n[:-6] + "stops"
        if isinstance(args.get(other), list) and any(b < a for a, b in zip(args[n], args[other])):
            return True
    return False


def run_case(case):
    kname = case["kernel"]
    pre = PRE.PRECONDITIONS.get(kname)
    if pre is not None and not pre(case["args"]):
        return {"discarded": "precondition:" + kname}
    outcome, vals = run_definition(kname, case["args"])
    if outcome == "ok" and improper_lists(kname, case["args"]):
        # a list with stop < start (or decreasing offsets) that the definition does not reject: the kernel's
        # behaviour on such input is not specified (unsigned widths wrap); counted, not compared
        return {"discarded": "precondition:start<=stop_not_checked_by_definition", "tags": ["discard_kernel:" + kname]}
    if outcome.startswith("discard"):
        return {"discarded": outcome, "tags": ["discard_kernel:" + kname]}
    k = KERNELS[kname]
    ncompared = 0
    results = {}
    signed_only = False
    if outcome == "valueerror" and improper_lists(kname, case["args"]):
        msg = LAST_MESSAGE[0]
        if not ("start" in msg and "stop" in msg):
            # the definition fails for an incidental reason on a list with stop < start; unsigned widths wrap there
            signed_only = True
    for spec in k["specializations"]:
        if signed_only and any(islist(a["type"]) and base(a["type"]).startswith("uint") and a["name"].endswith(("starts", "stops"))
                               for a in spec["args"]):
            continue
        r = call_spec(spec, case, vals, outcome)
        if r == "compared":
            ncompared += 1
        results[spec["name"]] = r
    if ncompared == 0:
        return {"discarded": "no_specialization_representable", "tags": ["discard_kernel:" + kname]}
    wrote = sum(len(v.written) for v in vals.values() if isinstance(v, Rec))
    lists_nonempty = all(len(v) > 0 for name, v in case["args"].items() if isinstance(v, list) and not name.startswith("init:"))
    nontrivial = (outcome == "valueerror") or (wrote >= 1 and lists_nonempty) or case["n"] == 0
    return {"nontrivial": nontrivial, "tags": ["in_domain:" + kname, "outcome:" + outcome],
            "counts": {"specialization_calls": ncompared}, "sample_class": kname if nontrivial else None}


KNOWN = PRE.KNOWN
