"""C18 - lazy (virtual) and partitioned arrays are indistinguishable from the eager array (tier L, history-based).

Two kinds of case, both whole histories (replay = run_case(case)):

part "virtual":   a generated description, VirtualArray wrappers inserted at 1..3 nodes (root and/or inner nodes, possibly
                  nested), one generator behaviour per wrapper, one cache behaviour shared by all wrappers, and 1..8 operations
                  applied to the virtual array and to its eager twin (same description, no wrapper); an operation may take the
                  result of an earlier lazy-capable step (range / field / carry) as its input instead of the root.
part "partition": a generated value cut into 1..4 partitions (empty ones included), every partition with its own random
                  encoding, and 1..8 positional operations / repartitionings, compared with the concatenated value.
"""
import json

import numpy as np
from hypothesis import strategies as st

from akgen import gen
from akmodel import core as M
from akshim import core as C
from akshim import describe as D
from akshim import layout as L
from akshim import virtual as V
from checks import known as K
from checks import ops
from checks.common import plain
from checks.modelcheck import region, oplabel
from vlib.common import Violation, HarnessError

ID = "C18"
MANIFEST = {
    "technique": "property-based testing of histories (Hypothesis): generated layouts wrapped in VirtualArray at random nodes x generator behaviours x cache behaviours x operation sequences against the eager twin; generated partitionings x positional operations / repartitionings against the concatenated value; the same at the Python level (ak.virtual, ak.partitioned, ak.repartition) on the awkward._ext emulation",
    "level_text": "Generated-input exploration at the C++ level (libawkward through the /verif bridge) and at the Python level (unmodified src/awkward on the awkward._ext emulation). Virtual part: a type-directed generator draws a layout; 1..3 nodes (root, inner, nested) are wrapped in VirtualArray whose ArrayGenerator/ArrayCache call back into Python; generator behaviours correct / raises on drawn calls / shorter or longer than the declared length / other than the declared form; cache behaviours none / keep / never stores / evicts on a drawn schedule / weak reference lost; 1..8 (thorough: 1..16) catalogue operations (also on lazy results of earlier steps) must give the eager twin's value and success/error class; with length and form declared len/type/form/range/field slicing must not invoke the generator; a declaration mismatch must raise whenever the generator ran and a rejected array must never be readable afterwards; after a failed or evicted generation the next read must be right; cache entries must hold the true value of their own key. Partition part: every split of a value into 1..4 partitions (empty ones included) with independent encodings; getitem_at, getitem_range (any step), tojson, len, partitionid_index_at, start/stop/stops and repartition (incl. trailing empty partitions) must agree with the concatenated value. Python level: ak.virtual(generate, form, length, cache, cache_key) at the root or as a field of a RecordArray x the same generator behaviours x cache 'new' / None / a mapping that never keeps / evicts on a drawn schedule, and ak.partitioned([...]) of 1..4 pieces, under len, ak.type, to_list, a[i], a[slice], a[int array], a[mask], a[field], ak.num, ak.flatten, ak.sum, a+1, ak.is_none, ak.materialized, ak.to_json, ak.fields, ak.partitions, ak.repartition(int / list / None), compared with the eager concatenated ak.Array under the same call. Held on everything generated outside the four recorded known findings (a generated array longer than declared is accepted; the form predicted for a lazy range slice ignores that a BitMaskedArray below a regular/record/masked node becomes a ByteMaskedArray; nested VirtualArrays predict slice forms as if their nodes were concrete; a[..., newaxis] through a VirtualArray over a RecordArray puts the new axis inside the fields).",
    "level_note": "Trusted: the /verif bridge, akshim.virtual and the rest of the awkward._ext emulation (a re-statement of PyArrayGenerator/PyArrayCache and of the pybind11 binding, which cannot be compiled here: src/python/virtual.cpp and partition.cpp themselves are not executed), akmodel.decode as the reader of results. Not decided: thread interleavings (every history is a single-threaded schedule owned by the harness: concurrent generation/eviction is out of reach), ptr_lib='cuda', a cache whose weak reference dies at the Python level (ak.Array keeps its caches alive; exercised at the C++ level only). At the Python level operations that reduce or restructure below the top level are compared on canonically encoded pieces only, reducers at axis=None only, and the order in which ak.flatten(axis=None) lists record fields is not compared (unspecified); steps that need the ArrayBuilder emulation are skipped and counted; type strings of partitioned arrays are not compared (merging pieces turns regular dimensions into var and leaves unions unsimplified: a matter of merge, not of the value). SliceGenerator is exercised through the lazy results libawkward builds itself, not constructed directly with contradicting declarations. When the eager array refuses to sort strings at an outer axis the virtual twin is not required to refuse (the refusal is decided by purelist_parameter, which a lazily carried VirtualArray answers without a form). The Python-level partitioned steps include concatenation of partitioned arrays (value, len, item), pad_none / num / reducers / sort / argsort at positive and negative axes (sorting on option-free types only: option data is C06's recorded finding), reducers without an axis, and index arrays of every integer width.",
}
RULE = ("case = whole history. virtual: description + wrappers (path, declared form/length, generator behaviour) + cache behaviour + 1..8 steps; "
        "non-trivial = some wrapper's generator ran at least twice (a re-generation after an eviction, a cache that does not keep, or a failed generation) "
        "and at least one step compared equal to the eager twin, or a declaration mismatch was detected. "
        "partition: 1..4 encoded partitions + 1..8 operations; non-trivial = a range or repartition crossing a partition boundary, or an element read from a partition other than the first. "
        "pvirtual / ppartition (Python level): same rules; ppartition is non-trivial when at least two pieces are non-empty and a data operation compared equal. "
        "distinct by hash of the case")
ASSUMPTIONS = ["generators are pure: every invocation builds the same description again",
               "steps whose eager twin lies in the region of a known finding of another property (checks/known.py) are skipped and counted",
               "a step's outcome is that of the operation followed by a full read of its result (lazy results defer errors to the read)",
               "the step-level metadata claim (no generator call) is asserted for len, type, .form, getitem_range, getitem_field(s) only (Python level: len, ak.type, a[start:stop], a[field])",
               "when both twins refuse an operation the exception classes are not compared",
               "partitioned arrays may contain lazy (VirtualArray) partitions with correct generators (the shape ak.from_buffers(lazy=True) makes)",
               "every virtual history ends with a complete read of the root, which must be the eager value whatever was evicted or failed before"]
PLAN = {
    "quick": [{"flavour": "plain", "cases": 6400}, {"flavour": "san", "cases": 1600}],
    "thorough": [{"flavour": "plain", "cases": 60000}, {"flavour": "san", "cases": 15000}],
}
WALL_CAP = {"quick": 900, "thorough": 3300}
FORK_EACH = True

SIZE = {"steps": 8}      # longest history (quick); strategy("thorough") raises it
CFG = gen.Cfg(max_depth=3, leaf_dtypes=("int64", "float64", "bool", "int32", "uint8"), zero_field_records=False, nan=False)
PCFG = gen.Cfg(max_depth=2, leaf_dtypes=("int64", "float64", "bool"), zero_field_records=False, nan=False, max_len=8)

CATALOGUE = ["getitem_at", "getitem_range", "getitem", "num", "flatten", "localindex", "reduce", "sort", "argsort", "rpad", "rpad_and_clip",
             "combinations", "simplify", "deep_copy", "tojson", "carry", "numbers_to_type", "type", "form", "validity", "fillna", "purelist"]
FAMILIES = (["getitem_at"] * 3 + ["getitem_range"] * 4 + ["getitem"] * 3 + ["tojson"] * 3 + ["carry"] * 2 + ["len"] * 2 + ["field"] * 3 + ["fields"]
            + ["type"] * 2 + ["formjson", "peek", "array", "array"]
            + ["num", "flatten", "localindex", "reduce", "sort", "argsort", "rpad", "rpad_and_clip", "combinations", "simplify", "deep_copy",
               "numbers_to_type", "form", "validity", "fillna", "purelist"])
LAZY_OPS = ("len", "type", "formjson", "getitem_range", "field", "fields")      # the property's "only once data are needed"
CHAIN_OPS = ("getitem_range", "carry", "field")
BAD_GENERATORS = ("short", "long", "wrong_form")
NO_DATA_OPS = ("len", "type", "formjson", "form", "purelist")      # answerable from the declarations alone
LOST = "lost its weak reference"


class GeneratorFailure(Exception):
    """what a failing generator callable raises"""


# ------------------------------------------------------------------------------------------------ description helpers
def all_paths(d, prefix=()):
    """paths of the nodes that may be wrapped.  Not the char/byte leaf of a string: the documented validity rule wants a
    string list to *directly* contain its __array__ = char node, so a wrapper there makes the layout invalid (out of domain)"""
    out = [list(prefix)]
    if (d.get("parameters") or {}).get("__array__") in ("string", "bytestring"):
        return out
    if "content" in d:
        out += all_paths(d["content"], prefix + (-1,))
    for i, c in enumerate(d.get("contents", [])):
        out += all_paths(c, prefix + (i,))
    return out


def node_at(d, path):
    for p in path:
        d = d["content"] if p == -1 else d["contents"][p]
    return d


def insert_wrappers(d, wraps, prefix=()):
    """the description with {"class": "VirtualArray", "generates": ..., "w": index} inserted at every wrapper path"""
    out = dict(d)
    if "content" in d:
        out["content"] = insert_wrappers(d["content"], wraps, prefix + (-1,))
    if "contents" in d:
        out["contents"] = [insert_wrappers(c, wraps, prefix + (i,)) for i, c in enumerate(d["contents"])]
    for w, spec in enumerate(wraps):
        if tuple(spec["path"]) == tuple(prefix):
            out = {"class": "VirtualArray", "generates": out, "w": w}
    return out


def field_names(T, acc=None):
    acc = [] if acc is None else acc
    if T[0] == "record":
        for nm, ft in T[1]:
            if nm not in acc:
                acc.append(nm)
            field_names(ft, acc)
    elif T[0] in ("list", "regular", "option"):
        field_names(T[1], acc)
    elif T[0] == "union":
        for t in T[1]:
            field_names(t, acc)
    return acc


# ------------------------------------------------------------------------------------------------ strategies
@st.composite
def draw_step(draw, sources):
    """sources: list of (id, T, vals, lazy_chain)"""
    src, T, vals, _ = sources[draw(st.integers(0, len(sources) - 1)) if draw(st.integers(0, 2)) else 0]
    spec = draw(ops.draw_op(T, vals, FAMILIES))
    r = draw(st.integers(0, 19))
    if r == 0:
        spec = {"op": "getitem", "items": [{"k": "newaxis"}]}
    elif r == 1 or (src != -1 and r < 6):
        spec = {"op": "purelist"}      # depth / parameter queries, preferably on the result of an earlier lazy step
    if spec["op"] in ("field", "fields"):
        names = field_names(T) + ["nope"]
        if spec["op"] == "field":
            spec["name"] = draw(st.sampled_from(names))
        else:
            spec["names"] = draw(st.lists(st.sampled_from(names), min_size=1, max_size=3))
    return {"src": src, "spec": spec}


def is_newaxis_only(spec):
    """a[np.newaxis]: VirtualArray::getitem answers it lazily (added after the seeded change C18-a was missed)"""
    return spec["op"] == "getitem" and [i.get("k") for i in spec.get("items", [])] == ["newaxis"]


def chainable(spec):
    return spec["op"] in CHAIN_OPS or is_newaxis_only(spec)


def chain_result(T, vals, spec):
    """(T', vals') of the lazy-capable operations whose results may feed later steps; None if not modelled here"""
    op = spec["op"]
    if is_newaxis_only(spec):
        return ["regular", T, len(vals)], [vals]
    if op == "getitem_range":
        return T, vals[slice(spec["start"], spec["stop"])]
    if op == "carry":
        if all(0 <= i < len(vals) for i in spec["index"]):
            return T, [vals[i] for i in spec["index"]]
        return None
    if op == "field" and T[0] == "record":
        for i, (nm, ft) in enumerate(T[1]):
            if nm == spec["name"]:
                return ft, [v[i] if T[2] else v[nm] for v in vals]
    return None


@st.composite
def virtual_cases(draw):
    T = draw(gen.types(CFG))
    vals = draw(gen.values(T, CFG))
    desc = draw(gen.encode(T, vals, CFG))
    paths = all_paths(desc)
    nw = min(draw(st.sampled_from([1, 1, 1, 2, 2, 3])), len(paths))
    chosen = []
    if draw(st.integers(0, 2)) > 0:
        chosen.append([])                     # the usual place: the root
    while len(chosen) < nw:
        p = paths[draw(st.integers(0, len(paths) - 1))]
        if p not in chosen:
            chosen.append(p)
    ckind = draw(st.sampled_from(["none", "keep", "keep", "evict_always", "none_mapping", "schedule", "schedule", "schedule", "broken"]))
    cache = {"kind": ckind}
    if ckind == "schedule":
        cache["schedule"] = draw(st.lists(st.booleans(), min_size=1, max_size=24))
    wraps = []
    for i, p in enumerate(chosen):
        sub = node_at(desc, p)
        n = M.length_of(sub)
        gk = "correct"
        if i == 0:
            gk = draw(st.sampled_from(["correct"] * 5 + ["raises"] * 4 + ["short", "long", "long", "wrong_form", "wrong_form"]))
        w = {"path": p, "declare_form": draw(st.integers(0, 3)) > 0, "declare_length": draw(st.integers(0, 3)) > 0,
             "key": draw(st.sampled_from([None, None, "k%d" % i])), "gen": {"kind": gk}}
        if gk == "raises":
            w["gen"]["fail_calls"] = sorted(set(draw(st.lists(st.integers(1, 6), min_size=1, max_size=3))))
        if gk == "long" and n == 0:
            gk = w["gen"]["kind"] = "short"     # nothing shorter than an empty array can be declared
        if gk in ("short", "long"):
            w["gen"]["delta"] = draw(st.integers(1, 2)) if gk == "short" else draw(st.integers(1, min(2, n)))
            w["declare_length"] = True
        if gk == "wrong_form":
            subT = M.decode(sub)[0]
            T2 = draw(gen.types(CFG))
            if T2 == subT or not gen.has_values(T2):
                T2 = ["list", subT]
            w["gen"]["wrong"] = gen.canonical(T2, [])
            w["declare_form"] = True
            if draw(st.booleans()):
                # a declared form that differs from the generated array in a parameter only (record name): must be refused as well
                # (added after the seeded change C18-b - generate_and_check no longer comparing parameters - was missed)
                import copy
                alt = copy.deepcopy(D.strip_virtual(sub))
                recs = []

                def walk(n):
                    if n["class"] == "RecordArray":
                        recs.append(n)
                    if "content" in n:
                        walk(n["content"])
                    for c in n.get("contents", []):
                        walk(c)
                walk(alt)
                if recs:
                    r = recs[draw(st.integers(0, len(recs) - 1))]
                    pars = dict(r.get("parameters") or {})
                    pars["__record__"] = (pars.get("__record__") or "") + "Other"
                    r["parameters"] = pars
                    w["gen"]["wrong"] = alt
        wraps.append(w)
    if ckind == "broken":
        if wraps[0]["gen"]["kind"] in BAD_GENERATORS:
            cache["kind"] = "keep"
        else:
            cache["break_at"] = draw(st.integers(0, 3))
    sources = [(-1, T, vals, True)]
    steps = []
    for j in range(draw(st.integers(1, SIZE["steps"]))):
        step = draw(draw_step(sources))
        steps.append(step)
        if chainable(step["spec"]):
            _, sT, sV, lazy = [s for s in sources if s[0] == step["src"]][0]
            r = chain_result(sT, sV, step["spec"])
            if r is not None:
                sources.append((j, r[0], r[1], lazy and step["spec"]["op"] != "carry"))
    return {"part": "virtual", "desc": desc, "wraps": wraps, "cache": cache, "steps": steps}


@st.composite
def stops_for(draw, n, k=None):
    k = draw(st.integers(1, 4)) if k is None else k
    cuts = sorted(draw(st.lists(st.integers(0, n), min_size=k - 1, max_size=k - 1)))
    return cuts + [n]


@st.composite
def partition_cases(draw):
    T = draw(gen.types(PCFG))
    vals = draw(gen.values(T, PCFG))
    n = len(vals)
    stops = draw(stops_for(n))
    pieces = []
    a = 0
    for b in stops:
        d = draw(gen.encode(T, vals[a:b], PCFG))
        if draw(st.integers(0, 4)) == 0:
            # a lazy partition (the shape ak.from_buffers / ak.from_parquet make with lazy=True): akshim.describe.default_virtual_builder
            d = {"class": "VirtualArray", "generates": d, "declare_form": draw(st.booleans()), "declare_length": draw(st.booleans()),
                 "cache": draw(st.sampled_from([None, "keep", "none_mapping"]))}
        pieces.append(d)
        a = b
    pops = []
    cur = n
    for _ in range(draw(st.integers(1, SIZE["steps"]))):
        k = draw(st.sampled_from(["getitem_at", "getitem_at", "getitem_range", "getitem_range", "getitem_range", "tojson", "len", "pidx", "pidx",
                                  "structure", "repartition", "repartition", "narrow"]))
        b = st.one_of(st.none(), st.integers(-cur - 2, cur + 2))
        if k == "getitem_at":
            pops.append({"op": k, "i": draw(st.integers(-cur - 1, cur))})
        elif k in ("getitem_range", "narrow"):
            step = draw(st.sampled_from([None, None, 1, 1, 2, 3, -1, -2, -3, cur + 1, 0])) if k == "getitem_range" else draw(st.sampled_from([None, 1, 1, 2, -1]))
            op = {"op": k, "start": draw(b), "stop": draw(b), "step": step}
            pops.append(op)
            if k == "narrow":
                cur = len(list(range(cur))[slice(op["start"], op["stop"], op["step"])])
        elif k == "pidx":
            pops.append({"op": k, "at": draw(st.integers(-1, cur + 1))})
        elif k == "repartition":
            new = draw(stops_for(cur))
            if draw(st.integers(0, 7)) == 0:
                new[-1] += draw(st.sampled_from([-1, 1]))      # a length the array does not have: must be refused
            pops.append({"op": k, "stops": new})
        else:
            pops.append({"op": k})
    return {"part": "partition", "pieces": pieces, "ops": pops}


def strategy(tier):
    from checks import c18p
    SIZE["steps"] = 8 if tier == "quick" else 16
    return st.one_of(virtual_cases(), virtual_cases(), virtual_cases(), virtual_cases(), partition_cases(), partition_cases(),
                     c18p.pvirtual_cases(), c18p.ppartition_cases(), c18p.ppartition_cases())


def setup(flavour, tier):
    from checks import pcommon
    pcommon.ak()      # the Python layer is imported once per worker, before cases are forked


# ------------------------------------------------------------------------------------------------ known findings
def _first_gen(case):
    return case["wraps"][0]["gen"]["kind"] if case.get("part") == "virtual" and case.get("wraps") else None


def known_length_longer(case, vio):
    """ArrayGenerator::generate_and_check accepts a generated array longer than the declared length"""
    # ... and operations on such an array work with two different lengths (the declared one for len(), the real one for the data):
    # kernels sized by one and indexed by the other die under the sanitizer (crash bucket of a history whose first generator is "long")
    b = vio.get("bucket", "")
    return _first_gen(case) == "long" and (b.startswith("unenforced:long|") or (b.startswith("crash:virtual|") and b.endswith("|long")))


NOT_CONFORM = "generated array does not conform to expected form"


def _observed_text(vio):
    obs = vio.get("observed")
    return obs[1] if isinstance(obs, list) and len(obs) > 1 and isinstance(obs[1], str) else ""


def known_bitmasked_range_form(case, vio):
    """Form::getitem_range() is the identity for every form but BitMaskedForm, yet RegularArray / RecordArray / ByteMaskedArray / UnmaskedArray
    slice their contents: a BitMaskedArray below them becomes a ByteMaskedArray, which the predicted form of the lazy slice does not say"""
    text = _observed_text(vio)
    if not (vio.get("bucket", "").startswith("errorclass:") and NOT_CONFORM in text):
        return False
    expected, _, generated = text.partition("but generated:")
    if case.get("part") in ("virtual", "pvirtual"):
        descs = [case["desc"]]
    elif case.get("part") == "partition":
        descs = [D.strip_virtual(d) for d in case["pieces"] if d["class"] == "VirtualArray"]
    else:
        return False
    return ('"BitMaskedArray"' in expected and '"ByteMaskedArray"' in generated
            and any(K.any_node(d, lambda n: n["class"] == "BitMaskedArray") for d in descs))


def known_nested_virtual_slice_form(case, vio):
    """a VirtualArray with a declared (or, after a first generation, inferred) form whose generated array contains further VirtualArray nodes passes generate_and_check (compatibility
    check) but the form predicted for its lazy field / range slice assumes the nodes are not virtual (option/indexed simplification)"""
    text = _observed_text(vio)
    if not (case.get("part") == "virtual" and vio.get("bucket", "").startswith("errorclass:") and NOT_CONFORM in text):
        return False
    _, _, generated = text.partition("but generated:")
    paths = [tuple(w["path"]) for w in case["wraps"]]
    nested = any(any(len(q) > len(w["path"]) and q[:len(w["path"])] == tuple(w["path"]) for q in paths) for w in case["wraps"])
    return '"VirtualArray"' in generated and nested


def known_ellipsis_newaxis_through_virtual_record(case, vio):
    """a[..., np.newaxis] where the ellipsis has to pass a VirtualArray whose array is a RecordArray: VirtualArray::getitem_next hands the
    slice to RecordArray's generic (SliceItemPtr) overload, which pushes it into every field, where the eager parent calls the typed
    overload that treats the record as the item: the new axis ends up inside the fields ([[{x: [5]}]] instead of [[[{x: 5}]]])"""
    if not (case.get("part") == "virtual" and vio.get("bucket", "").startswith(("value:getitem|", "errorclass:getitem|"))):
        return False      # errorclass: records whose fields differ in depth - the eager array refuses the ellipsis, the per-field route does not
    both = any(s_["spec"]["op"] == "getitem" and {"ellipsis", "newaxis"} <= set(i["k"] for i in s_["spec"]["items"]) for s_ in case["steps"])
    record_below_inner_wrapper = any(w["path"] and K.any_node(node_at(case["desc"], w["path"]), lambda n: n["class"] == "RecordArray") for w in case["wraps"])
    return both and record_below_inner_wrapper


def known_repartition_unmergeable_parameters(case, vio):
    """C08's finding merge_parameters_compared_first seen through ak.repartition: pieces whose string/record node sits behind an
    IndexedArray in one piece and not in another are 'not mergeable', the merged partition becomes a union and ak.type raises
    'inconsistent types in PartitionedArray'"""
    if case.get("part") not in ("ppartition", "partition"):
        return False
    text = vio.get("message", "") + str(vio.get("observed", ""))
    if "inconsistent types in PartitionedArray" not in text:
        return False

    def wrapped_parameterised(n):
        return n["class"] in ("IndexedArray32", "IndexedArrayU32", "IndexedArray64") and bool(n["content"].get("parameters"))
    return any(K.any_node(p if "class" in p else p.get("generates", p), wrapped_parameterised) for p in case.get("pieces", []))


def known_repartition_regular_pieces(case, vio):
    """Content::mergemany of RegularArrays (or n-d NumpyArrays) gives variable-length lists; ak.repartition merges some pieces and only
    slices others, so a repartitioned array of regular type has pieces of types 'var * ...' and 'N * ...' and ak.type raises
    'inconsistent types in PartitionedArray'"""
    if case.get("part") not in ("ppartition", "partition"):
        return False
    text = vio.get("message", "") + str(vio.get("observed", ""))
    if "inconsistent types in PartitionedArray" not in text:
        return False

    def regular_top(n):
        while n["class"].startswith(("IndexedArray", "IndexedOptionArray", "ByteMaskedArray", "BitMaskedArray", "UnmaskedArray")):
            n = n["content"]
        return n["class"] == "RegularArray" or (n["class"] == "NumpyArray" and len(n["shape"]) > 1)
    return any(regular_top(p if "class" in p else p.get("generates", p)) for p in case.get("pieces", []))


KNOWN = {"repartition_unmergeable_parameters": known_repartition_unmergeable_parameters,
         "repartition_regular_pieces": known_repartition_regular_pieces,
         "virtual_generated_longer_than_declared": known_length_longer,
         "virtual_record_ellipsis_newaxis": known_ellipsis_newaxis_through_virtual_record,
         "virtual_range_form_bitmasked": known_bitmasked_range_form,
         "virtual_slice_form_nested_virtual": known_nested_virtual_slice_form}


def pre_exclude(case):
    return None       # crash regions of other properties' known findings are skipped step by step inside run_case (counted there)


def case_label(case):
    if case["part"] == "pvirtual":
        return "pvirtual|%s|%s|%s" % (case["where"], case["cache"]["kind"], case["gen"]["kind"])
    if case["part"] == "ppartition":
        return "ppartition|" + ",".join(sorted(set(s_["spec"]["op"] for s_ in case["steps"])))
    if case["part"] == "partition":
        return "partition|" + ",".join(sorted(set(o["op"] for o in case["ops"])))
    w = case["wraps"][0]
    return "virtual|%s|%s|%s" % ("root" if not w["path"] else "inner", case["cache"]["kind"], w["gen"]["kind"])


def nested_strings(desc):
    """does the type have a string / bytestring below at least two list levels?"""
    try:
        T = M.decode(desc)[0]
    except M.Invalid:
        return False

    def walk(t, lists):
        k = t[0]
        if k in ("string", "bytes"):
            return lists >= 2
        if k in ("list", "regular"):
            return walk(t[1], lists + 1)
        if k == "option":
            return walk(t[1], lists)
        if k == "record":
            return any(walk(ft, lists) for _, ft in t[1])
        if k == "union":
            return any(walk(x, lists) for x in t[1])
        return False
    return walk(T, 0)


def eager_known(spec, srcdesc):
    """name of a known finding (of any property) whose region contains this step on the eager twin, else None"""
    try:
        T, vals = M.decode(srcdesc)
        reg = region(T, vals, spec)
    except M.Invalid:
        return "eager_source_unevaluable"
    case = {"desc": srcdesc, "spec": spec}
    for kind in ("value", "errorclass"):
        vio = {"bucket": "%s:%s|%s" % (kind, oplabel(spec), reg), "clause": None, "message": ""}
        for name, fn in K.PREDICATES.items():
            try:
                if fn(case, vio):
                    return name
            except (KeyError, TypeError, M.Invalid):
                pass
    return None


# ------------------------------------------------------------------------------------------------ the virtual part
class Mapping(V.MappingProxy):
    """the MutableMapping behind the ArrayCache, with the drawn eviction behaviour"""

    def __init__(self, kind, schedule, run):
        V.MappingProxy.__init__(self)
        self.kind, self.schedule, self.run, self.pos = kind, list(schedule or ()), run, 0

    def _evict_now(self):
        if self.kind != "schedule" or self.pos >= len(self.schedule):
            return False
        self.pos += 1
        return self.schedule[self.pos - 1]

    def __getitem__(self, key):
        if self.kind == "evict_always":
            raise KeyError(key)
        if self._evict_now() and len(self):
            self.clear()
            self.run.evictions += 1
        return dict.__getitem__(self, key)

    def __setitem__(self, key, value):
        if self.kind == "evict_always":
            return
        if self._evict_now():
            self.pop(key, None)
            self.run.evictions += 1
            return
        dict.__setitem__(self, key, value)


class Run(object):
    def __init__(self, case):
        self.case = case
        self.wraps = case["wraps"]
        self.calls = [0] * len(self.wraps)
        self.failures = 0
        self.evictions = 0
        self.quiet = False
        self.keys = {}
        self.truth = {}
        ck = case["cache"]["kind"]
        self.mapping = None
        self.cache = None
        if ck in ("keep", "evict_always", "schedule", "broken"):
            self.mapping = Mapping("keep" if ck == "broken" else ck, case["cache"].get("schedule"), self)
            self.cache = V.ArrayCache(self.mapping)
        elif ck == "none_mapping":
            self.cache = V.ArrayCache(None)
        self.broken = False

    def break_cache(self):
        self.mapping = None      # the ArrayCache only holds a weak reference: it is now broken
        self.broken = True

    def true_value(self, w, sub):
        if w not in self.truth:
            self.truth[w] = M.decode(D.strip_virtual(sub))[1]
        return self.truth[w]

    def build_virtual(self, node, buffers):
        w = node["w"]
        spec = self.wraps[w]
        g = spec["gen"]
        sub = node["generates"]
        true_desc = D.strip_virtual(sub)
        self.true_value(w, sub)
        n = M.length_of(true_desc)
        length = None
        if spec["declare_length"]:
            length = n + g["delta"] if g["kind"] == "short" else (n - g["delta"] if g["kind"] == "long" else n)
        form = None
        if spec["declare_form"]:
            form = V.form_of(D.build(g["wrong"] if g["kind"] == "wrong_form" else true_desc))
        run = self

        def generate():
            if not run.quiet:
                run.calls[w] += 1
                if g["kind"] == "raises" and run.calls[w] in g["fail_calls"]:
                    run.failures += 1
                    raise GeneratorFailure("generator %d, call %d" % (w, run.calls[w]))
            return D.build(sub)

        va = V.VirtualArray(V.ArrayGenerator(generate, form=form, length=length), self.cache, spec["key"])
        self.keys[va.cache_key] = w
        return va


def apply_step(layout, spec, virtual_side):
    op = spec["op"]
    if op == "len":
        return len(layout)
    if op == "field":
        return layout[spec["name"]]
    if op == "fields":
        return layout[list(spec["names"])]
    if op == "formjson":
        V.form_of(layout, False).tojson(False, True)      # Content.form of the binding: form(false)
        return None
    if op == "peek":
        if virtual_side and isinstance(layout, V.VirtualArray):
            r = layout.peek_array
            return SKIP if r is None else r
        return layout
    if op == "array":
        if virtual_side and isinstance(layout, V.VirtualArray):
            return layout.array
        return layout
    return ops.apply_op(layout, spec)


class _Skip(object):
    pass


SKIP = _Skip()


def read(res, spec):
    """a result reduced to comparable data; array results are read completely (lazy nodes are materialised)"""
    if res is SKIP:
        return SKIP
    if isinstance(res, L.Content):
        return D.value_of(res)[1]
    if isinstance(res, (np.generic,)):
        return res.item()
    if spec["op"] == "tojson":
        return json.loads(res)
    if spec["op"] == "validity":
        return res is None      # the message names the path (".array" for a VirtualArray); only the verdict is compared
    return plain(res)


def attempt(fn, spec):
    """(kind, message-or-None, value, result) of an operation followed by the read of its result"""
    try:
        res = fn()
        return "ok", None, read(res, spec), res
    except GeneratorFailure as e:
        return "GeneratorFailure", str(e), None, None
    except ValueError as e:
        return "ValueError", str(e), None, None
    except RuntimeError as e:
        return "RuntimeError", str(e), None, None
    except C.OtherNativeError as e:
        return "OtherNativeError", str(e), None, None
    except (M.Invalid, TypeError, IndexError, KeyError, AttributeError) as e:
        # the reader cannot make sense of the result (an invalid array: C11's business when it happens on the eager twin)
        return "Unevaluable", "%s: %s" % (type(e).__name__, e), None, None


def run_virtual(case):
    run = Run(case)
    D.VIRTUAL_BUILDER.append(run.build_virtual)
    try:
        return _run_virtual(case, run)
    finally:
        D.VIRTUAL_BUILDER.pop()
        V.clear_pending()


def _run_virtual(case, run):
    desc, wraps, steps, ckind = case["desc"], case["wraps"], case["steps"], case["cache"]["kind"]
    w0 = wraps[0]
    gk = w0["gen"]["kind"]
    where = "root" if any(not w["path"] for w in wraps) else "inner"
    label = "%s|%s|%s" % (where, ckind, gk)
    vdesc = insert_wrappers(desc, wraps)
    eager_root = D.build(desc)
    # a RecordArray without an explicit length asks its fields for theirs: construction can already be a read
    virt_root = None
    for _ in range(len(w0["gen"].get("fail_calls", ())) + 2):
        try:
            virt_root = D.build(vdesc)
            break
        except GeneratorFailure:
            V.clear_pending()
        except ValueError:
            if gk in BAD_GENERATORS and sum(run.calls) > 0:
                # the contradicting generator ran, or an enclosing wrapper's generator ran and its check met the contradicting declaration
                return {"tags": ["part:virtual", "gen:" + gk, "mismatch_detected_at_construction"], "nontrivial": False}
            if gk == "long" and w0["path"] and run.calls[0] == 0:
                # the declared length is shorter than the node it replaces: the enclosing node's constructor (which only sees
                # the declaration) rightly refuses a content that short - not a layout the statement quantifies over
                return {"discarded": "declared length shorter than the enclosing node needs"}
            raise
    if virt_root is None:
        raise Violation("phantom_failure:construction", "the generator's exception keeps surfacing although no further generation fails")
    esrc, vsrc = {-1: eager_root}, {-1: virt_root}
    root_declared = any(not w["path"] and w["declare_form"] and w["declare_length"] for w in wraps) and \
        vdesc["class"] == "VirtualArray" and wraps[vdesc["w"]]["declare_form"] and wraps[vdesc["w"]]["declare_length"]
    lazy_src = {-1: root_declared}
    all_forms_declared = all(w["declare_form"] for w in wraps)
    tags = ["part:virtual", "cache:" + ckind, "gen:" + gk, "wrappers:%d" % len(wraps), "where:" + where,
            "depth:%d" % min(max(len(w["path"]) for w in wraps), 4),
            "declared:%s%s" % ("F" if w0["declare_form"] else "-", "L" if w0["declare_length"] else "-")]
    compared = 0
    detected = 0
    for j, st_ in enumerate(steps):
        if ckind == "broken" and j == case["cache"]["break_at"]:
            run.break_cache()
        src, spec = st_["src"], st_["spec"]
        op = spec["op"]
        if src not in esrc or src not in vsrc:
            tags.append("step:source_unavailable")
            continue
        srcdesc = desc if src == -1 else None
        if srcdesc is None:
            try:
                srcdesc = D.describe(esrc[src])
            except M.Invalid:
                tags.append("step:eager_source_unevaluable")
                continue
        if op == "reduce" and ("'string'" in repr(M.decode(srcdesc)[0]) or "'bytes'" in repr(M.decode(srcdesc)[0])):
            # reducers are defined on numeric leaves (C02 and C03 make the same restriction): on strings the library reduces the
            # characters and, with missing strings, returns uninitialised positions that differ from run to run
            tags.append("step_skipped:reduce_on_strings")
            continue
        if op in ("reduce", "sort", "argsort") and nested_strings(srcdesc):
            # the non-local reduce/sort machinery overflows its buffers on the EAGER twin for strings below two list levels (the crash
            # family of reduce_nonlocal_deep / sort_nonlocal_deep, whose predicates count levels without the string's own): not run
            tags.append("step_skipped:reduce_sort_on_nested_strings")
            continue
        excl = (K.pre_exclude(spec, srcdesc) if op in CATALOGUE else None) or eager_known(spec, srcdesc)
        if excl is not None:
            tags.append("step_skipped:" + excl)
            continue
        tags.append("op:" + op)
        ek, emsg, ev, eres = attempt(lambda: apply_step(esrc[src], spec, False), spec)
        if ek in ("OtherNativeError", "Unevaluable"):
            tags.append("step_skipped:eager_" + ek)      # another property's business (C11 closure / C12 exceptions)
            continue
        # ---- the virtual twin; a failing generator is retried: "after a failed generation the next read is correct"
        before = list(run.calls)
        opcalls = None
        tries = 0
        while True:
            tries += 1
            calls0 = sum(run.calls)
            during_op = {}

            def do():
                r = apply_step(vsrc[src], spec, True)
                during_op["calls"] = sum(run.calls) - calls0
                return r
            vk, vmsg, vv, vres = attempt(do, spec)
            if opcalls is None:      # generator invocations of the operation itself (first attempt), not of the read of its result
                opcalls = during_op.get("calls", sum(run.calls) - calls0)
            if vk != "GeneratorFailure":
                break
            V.clear_pending()
            if gk != "raises" or tries > len(w0["gen"]["fail_calls"]) + 1:
                raise Violation("phantom_failure:%s|%s" % (op, label), "the generator's exception surfaced although no generation failed in this attempt")
        if V.pending_count():
            tags.append("callback_exception_swallowed")
            V.clear_pending()
        bucket_tail = "%s|%s" % (op, label)
        # ---- (1) only once data are needed
        if lazy_src.get(src) and op in LAZY_OPS and opcalls:
            raise Violation("lazy:" + bucket_tail, "%s on a VirtualArray with declared length and form invoked the generator %d time(s)" % (op, opcalls),
                            expected=0, observed=opcalls)
        if vk == "OtherNativeError":
            raise Violation("exception:" + bucket_tail, "non-documented C++ exception on the virtual twin: %s" % vmsg[:200], clause="C12-exception")
        # ---- (2) declarations are enforced
        if gk in BAD_GENERATORS:
            ran = run.calls[0] - before[0]
            if ran > 0:
                if vk != "ValueError":
                    raise Violation("unenforced:%s|%s" % (gk, op), "the generator ran %d time(s) returning an array that contradicts its declared %s, "
                                    "but %s ended in %s instead of an error" % (ran, "form" if gk == "wrong_form" else "length", op, vk),
                                    expected="ValueError", observed=[vk, M.jsonable(vv) if vk == "ok" and vv is not SKIP else vmsg])
                detected += 1
                tags.append("mismatch_detected")
            elif not w0["path"] and vk == "ok" and vv is not SKIP and op not in NO_DATA_OPS:
                # every element of the array has to come through this generator, which only ever makes a contradicting array and did
                # not even run in this step: a rejected array has been left visible (in the cache)
                raise Violation("unenforced:%s|%s" % (gk, op), "%s read data from a VirtualArray without running its generator, although every array "
                                "that generator makes contradicts the declared %s: a rejected array was left visible" % (op, "form" if gk == "wrong_form" else "length"),
                                expected="ValueError", observed=[vk, M.jsonable(vv)])
            continue
        # ---- (3) same value and success/error class as the eager twin
        if ckind == "broken" and run.broken and vk == "RuntimeError" and LOST in (vmsg or ""):
            tags.append("broken_cache_reported")
            continue
        if vk == "Unevaluable":
            raise Violation("unevaluable:" + bucket_tail, "the virtual twin's result of %s cannot be read: %s" % (op, vmsg), observed=vmsg)
        if vk != ek and vk != "ok" and ek != "ok":
            # both refuse; which exception class a refusal uses is not part of the statement (a lazy getitem_field without a form reaches
            # NumpyArray::getitem(Slice), a runtime_error, where the eager getitem_field raises invalid_argument)
            tags.append("error_class_differs")
            continue
        if ek == "ValueError" and vk == "ok" and op in ("sort", "argsort") and "array with strings can only be sorted with axis=-1" in (emsg or ""):
            # the eager array refuses (there is no value to compare with); the refusal is decided by purelist_parameter("__array__") of an outer
            # node, which a VirtualArray below it answers from its (declared, inferred, sliced or unknown) form without materialising
            tags.append("string_sort_refusal_not_compared")
            continue
        if vk != ek:
            raise Violation("errorclass:" + bucket_tail, "%s: eager twin gives %s, virtual twin gives %s" % (op, ek, vk),
                            expected=[ek, emsg if ek != "ok" else M.jsonable(ev)], observed=[vk, vmsg if vk != "ok" else (None if vv is SKIP else M.jsonable(vv))])
        if vk != "ok":
            tags.append("outcome:" + vk)
            continue
        if vv is SKIP:
            tags.append("peek_empty")
            continue
        if op == "purelist" and not all_forms_declared and not M.same_value(ev, vv) and M.same_value(ev[2], vv[2]):
            # Content::purelist_parameter asks form(false): a VirtualArray without a declared form answers null rather than materialise
            # (documented trade-off: a form is what lets it know); the length component must still agree
            tags.append("purelist_parameter_unknown_without_form")
            compared += 1
            continue
        if not M.same_value(ev, vv):
            raise Violation("value:" + bucket_tail, "%s differs between the virtual array and its eager twin" % op, expected=M.jsonable(ev), observed=M.jsonable(vv))
        compared += 1
        if chainable(spec) and isinstance(eres, L.Content) and isinstance(vres, L.Content) and not isinstance(eres, L.Record):
            esrc[j], vsrc[j] = eres, vres
            lazy_src[j] = bool(lazy_src.get(src)) and op != "carry"
            if isinstance(vres, V.VirtualArray):
                tags.append("lazy_result")
    # ---- (3b) whatever happened before (evictions, failed generations, a lost cache), a final complete read is still the true value
    if gk not in BAD_GENERATORS and not (ckind == "broken" and run.broken):
        for _ in range(len(w0["gen"].get("fail_calls", ())) + 2):
            fk, fmsg, fv, _res = attempt(lambda: virt_root, {"op": "final_read"})
            V.clear_pending()
            if fk != "GeneratorFailure":
                break
        if fk != "ok":
            raise Violation("final_read:%s|%s" % (fk, label), "the final complete read of the virtual array fails: %s" % fmsg, expected="ok", observed=[fk, fmsg])
        truth = M.decode(desc)[1]
        if not M.same_value(fv, truth):
            raise Violation("value:final_read|" + label, "the final complete read of the virtual array differs from the eager array", expected=M.jsonable(truth), observed=M.jsonable(fv))
        tags.append("final_read_ok")
    # ---- (4) nothing stale or partial is left visible in the cache
    if run.mapping is not None:
        run.quiet = True
        for key, value in list(dict.items(run.mapping)):
            if key not in run.keys:
                raise Violation("cache:foreign_key|" + label, "the cache holds an entry under a key no VirtualArray of this history owns", observed=key)
            try:
                got = D.value_of(value)[1]
            except ValueError:
                if gk in BAD_GENERATORS:
                    continue          # the entry contains the wrapper whose generator contradicts its declaration: reading it must fail
                raise
            if not M.same_value(got, run.truth[run.keys[key]]):
                raise Violation("cache:stale|" + label, "the cache entry of a VirtualArray is not the array its generator makes",
                                expected=M.jsonable(run.truth[run.keys[key]]), observed=M.jsonable(got))
    regenerated = max(run.calls) >= 2
    tags += ["regenerated"] if regenerated else []
    tags += ["evicted"] if run.evictions else []
    tags += ["generation_failed"] if run.failures else []
    return {"tags": tags, "nontrivial": (regenerated and compared > 0) or detected > 0,
            "sample_class": "virtual:%s:%s" % (ckind, gk), "counts": {"steps_compared": compared, "generator_calls": sum(run.calls)}}


# ------------------------------------------------------------------------------------------------ the partition part
def model_pidx(stops, at):
    start = 0
    for i, s in enumerate(stops):
        if start <= at < s:
            return (i, at - start)
        start = s
    return None


def repartition_reads_past_end(src_stops, new_stops):
    """IrregularlyPartitionedArray::repartition as a walk over partition ids: does it ask for partitions_[numpartitions]?
    (it does whenever a new partition is requested after the last source partition was used up: trailing empty partitions)"""
    if list(new_stops) == list(src_stops) or new_stops[-1] != src_stops[-1]:
        return False
    lengths = [b - a for a, b in zip([0] + list(src_stops[:-1]), src_stops)]
    pid, index = 0, 0
    prev = 0
    for s in new_stops:
        want = s - prev
        prev = s
        have = None
        while have is None or have < want:
            if pid >= len(lengths):
                return True
            available = lengths[pid] - index
            desired = want - (have or 0)
            if available <= desired:
                have = (have or 0) + available
                pid, index = pid + 1, 0
            else:
                have = (have or 0) + desired
                index += desired
    return False


def check_partitioned(p, expected, what):
    """structure of an IrregularlyPartitionedArray and its value, partition by partition"""
    stops = p.stops
    parts = p.partitions
    if len(stops) != len(parts) or p.numpartitions != len(parts) or len(parts) == 0:
        raise Violation("partition:structure|" + what, "numpartitions / stops / partitions disagree", observed=[p.numpartitions, stops, len(parts)])
    a = 0
    got = []
    for i, (s, part) in enumerate(zip(stops, parts)):
        vals = D.value_of(part)[1]
        if s - a != len(vals) or p.start(i) != a or p.stop(i) != s:
            raise Violation("partition:stops|" + what, "stops do not describe the partitions' lengths", expected=[len(D.value_of(q)[1]) for q in parts], observed=stops)
        got.extend(vals)
        a = s
    if len(p) != len(got):
        raise Violation("partition:length|" + what, "len() is not the total length of the partitions", expected=len(got), observed=len(p))
    if not M.same_value(got, expected):
        raise Violation("partition:value|" + what, "%s differs from the concatenated array" % what, expected=M.jsonable(expected), observed=M.jsonable(got))
    return stops


def run_partition(case):
    try:
        return _run_partition(case)
    except ValueError as e:
        if NOT_CONFORM in str(e) and any(d["class"] == "VirtualArray" for d in case["pieces"]):
            # reading a lazy partition (or a lazy slice of one) fails although its generator is correct
            raise Violation("errorclass:partition|lazy_read", "a read of a partitioned array with lazy partitions fails where the concatenated array answers",
                            expected="ok", observed=["ValueError", str(e)])
        raise


def _run_partition(case):
    real_pieces = case["pieces"]
    pieces = [D.strip_virtual(d) for d in real_pieces]       # what the model reads
    T = M.decode(pieces[0])[0]
    vals = []
    for d in pieces:
        vals.extend(M.decode(d)[1])
    stops = []
    for d in pieces:
        stops.append((stops[-1] if stops else 0) + M.length_of(d))
    p = V.IrregularlyPartitionedArray([D.build(d) for d in real_pieces])
    whole = D.build(gen.canonical(T, vals))      # the concatenated array, built from the model's concatenation
    tags = ["part:partition", "partitions:%d" % len(pieces)] + (["empty_partition"] if any(M.length_of(d) == 0 for d in pieces) else [])
    tags += ["virtual_partition"] if any(d["class"] == "VirtualArray" for d in real_pieces) else []
    nontrivial = False
    check_partitioned(p, vals, "construction")
    if p.stops != stops:
        raise Violation("partition:stops|construction", "stops computed by the constructor", expected=stops, observed=p.stops)
    for spec in case["ops"]:
        op = spec["op"]
        n = len(vals)
        tags.append("pop:" + op)
        if op == "len":
            if len(p) != n:
                raise Violation("partition:length|len", "len()", expected=n, observed=len(p))
        elif op == "tojson":
            got = json.loads(p.tojson())
            exp = json.loads(whole.tojson())
            if not M.same_value(got, exp):
                raise Violation("partition:value|tojson", "tojson differs from the concatenated array's", expected=exp, observed=got)
        elif op == "structure":
            check_partitioned(p, vals, "structure")
        elif op == "pidx":
            at = spec["at"]
            exp = model_pidx(stops, at)
            got = p.partitionid_index_at(at)
            if exp is not None and tuple(got) != exp:
                raise Violation("partition:pidx", "partitionid_index_at(%d) with stops %r" % (at, stops), expected=list(exp), observed=list(got))
            if exp is not None and exp[0] > 0:
                nontrivial = True
        elif op == "getitem_at":
            i = spec["i"]
            kind, res = ops.outcome(lambda: p.getitem_at(i))
            if kind == "OtherNativeError":
                raise Violation("exception:partition_getitem_at", "non-documented C++ exception: " + res[:200], clause="C12-exception")
            inrange = -n <= i < n
            if inrange != (kind == "ok"):
                raise Violation("partition:errorclass|getitem_at", "getitem_at(%d) on length %d gives %s" % (i, n, kind),
                                expected="ok" if inrange else "ValueError", observed=[kind, str(res)[:200]])
            if inrange:
                got = D.value_of(res)[1]
                exp = D.value_of(whole[i])[1]        # the concatenated array's own answer (an element of a string array is its char array)
                if not M.same_value(got, exp):
                    raise Violation("partition:value|getitem_at", "getitem_at(%d) differs from the concatenated array's element" % i,
                                    expected=M.jsonable(exp), observed=M.jsonable(got))
                loc = model_pidx(stops, i % n)
                if loc is not None and loc[0] > 0:
                    nontrivial = True
        elif op in ("getitem_range", "narrow"):
            start, stop, step = spec["start"], spec["stop"], spec["step"]
            kind, res = ops.outcome(lambda: p.getitem_range(start, stop, step))
            if kind == "OtherNativeError":
                raise Violation("exception:partition_getitem_range", "non-documented C++ exception: " + res[:200], clause="C12-exception")
            if step == 0:
                if kind == "ok":
                    raise Violation("partition:errorclass|getitem_range", "a zero step is accepted", expected="ValueError", observed="ok")
                continue
            exp = vals[slice(start, stop, step)]
            if kind != "ok":
                raise Violation("partition:errorclass|getitem_range", "getitem_range(%r, %r, %r) on length %d raises %s: %s" % (start, stop, step, n, kind, str(res)[:200]),
                                expected=M.jsonable(exp), observed=[kind, str(res)[:200]])
            newstops = check_partitioned(res, exp, "getitem_range(step=%s)" % ("1" if step in (None, 1) else ("pos" if step > 0 else "neg")))
            touched = set(model_pidx(stops, k)[0] for k in list(range(n))[slice(start, stop, step)])
            if len(touched) > 1:
                nontrivial = True
                tags.append("range_crosses_boundary")
            if op == "narrow":
                p, vals, stops = res, exp, newstops
                whole = D.build(gen.canonical(T, vals))
        elif op == "repartition":
            new = spec["stops"]
            if repartition_reads_past_end(stops, new):
                tags.append("repartition_trailing_empty")      # once read partitions_[numpartitions] (fixed finding)
            kind, res = ops.outcome(lambda: p.repartition(new))
            if kind == "OtherNativeError":
                raise Violation("exception:partition_repartition", "non-documented C++ exception: " + res[:200], clause="C12-exception")
            if new[-1] != n:
                if kind == "ok":
                    raise Violation("partition:errorclass|repartition", "repartition to a different total length is accepted", expected="ValueError", observed=res.stops)
                continue
            if kind != "ok":
                raise Violation("partition:errorclass|repartition", "repartition(%r) of stops %r raises %s: %s" % (new, stops, kind, str(res)[:300]),
                                expected="ok", observed=[kind, str(res)[:300]])
            got = check_partitioned(res, vals, "repartition")
            if got != new:
                raise Violation("partition:stops|repartition", "repartition(%r) returns other stops" % (new,), expected=new, observed=got)
            if new != stops and len(set(stops[:-1]) - set(new)) > 0:
                nontrivial = True
                tags.append("repartition_merges_pieces")
            p, stops = res, new
        else:
            raise HarnessError("unknown partition op " + op)
    return {"tags": tags, "nontrivial": nontrivial, "sample_class": "partition:%d" % len(pieces)}


def run_case(case):
    if case["part"] == "virtual":
        return run_virtual(case)
    if case["part"] == "partition":
        return run_partition(case)
    if case["part"] == "pvirtual":
        from checks import c18p
        return c18p.run_pvirtual(case)
    if case["part"] == "ppartition":
        from checks import c18p
        return c18p.run_ppartition(case)
    raise HarnessError("unknown part")
