"""C02 - results depend only on an array's logical value, never on its physical layout (metamorphic, tier L)."""
from hypothesis import strategies as st

from akgen import gen
from akmodel import core as M
from akshim import layout as L
from checks import ops
from checks.common import run_checked, classpath, typestr, plain
from vlib.common import Violation, HarnessError

ID = "C02"
MANIFEST = {
    "technique": "metamorphic property-based testing (Hypothesis): one logical value under two generated physical encodings, every catalogue operation must give the same outcome",
    "level_text": "Generated-input exploration of a metamorphic relation: a type-directed generator draws a value and two physical encodings of it (random vs canonical compact 64-bit, or random vs random: node class, index width, offsets origin, gaps, permutations, unreachable storage, option encoding, strides, Indexed wrappers); a catalogue of ~25 operations with generated arguments must return equal values, equal type strings and the same error class on both. Held on everything generated.",
    "level_note": "Trusted: the /verif bridge and akshim layer (a re-statement of the pybind11 binding, which cannot be compiled here), akmodel.decode as the reader of results, the RapidJSON stand-in for tojson. Python-level operations (ak.*) are out of this check's scope.",
}
RULE = ("case = (description A, description B of the same logical value, operation + arguments); A random encoding, B canonical or random; "
        "non-trivial = A differs physically from the canonical encoding (class, width, origin, gap/permutation, option encoding, stride, wrapper), "
        "the array is non-empty and the operation did not raise; distinct by hash of the case")
ASSUMPTIONS = ["akmodel.decode(A) == akmodel.decode(B) is verified per case (harness self-check)",
               "operations compared: getitem forms, num, flatten, localindex, 10 reducers, sort/argsort, rpad(_and_clip), combinations, simplify, deep_copy, tojson, carry, unique/is_unique, numbers_to_type, type/form queries, validityerror, fillna"]
PLAN = {
    "quick": [{"flavour": "plain", "cases": 24000}, {"flavour": "san", "cases": 4000}],
    "thorough": [{"flavour": "plain", "cases": 600000}, {"flavour": "san", "cases": 200000}],
}
WALL_CAP = {"quick": 900, "thorough": 3300}
FORK_EACH = True   # every case runs in a forked child: a crash or heap corruption is attributed to exactly the case that caused it

import os  # noqa: E402
FAMILIES = os.environ["VERIF_FAMILIES"].split(",") if os.environ.get("VERIF_FAMILIES") else None
CFG = gen.Cfg(max_depth=3, leaf_dtypes=("int64", "float64", "bool", "int32", "uint8", "float32"), nan=False)


# a third of the cases: list-rich types and an operation that takes an axis, so that deep axes over non-canonical list
# nodes are met often (added after the seeded change C02-a - combinations at axis >= 2 below an offsets[0] != 0 list - was missed)
CFG_DEEP = gen.Cfg(max_depth=3, leaf_dtypes=("int64", "float64", "int32"), nan=False, records=False, unions=False, strings=False, unknown=False,
                   top_list=True, zero_field_records=False)
# the shared catalogue plus "the array merged with itself" (added after the seeded change C02-b - a wrong base for what
# follows an IndexedArrayU32 operand in mergemany - was missed by this check)
ALL_FAMILIES = ["getitem_at", "getitem_range", "getitem", "num", "flatten", "localindex", "reduce", "sort", "argsort", "rpad", "rpad_and_clip",
                "combinations", "simplify", "deep_copy", "tojson", "carry", "numbers_to_type", "type", "form", "validity", "fillna", "purelist",
                "mergeself", "mergeself"]
AXIS_FAMILIES = ["num", "flatten", "localindex", "reduce", "sort", "argsort", "rpad", "rpad_and_clip", "combinations"]


@st.composite
def strategy_(draw):
    deep = FAMILIES is None and draw(st.integers(0, 2)) == 0
    cfg = CFG_DEEP if deep else CFG
    T = draw(gen.types(cfg))
    vals = draw(gen.values(T, cfg))
    a = draw(gen.encode(T, vals, cfg))
    b = gen.canonical(T, vals) if draw(st.integers(0, 3)) > 0 else draw(gen.encode(T, vals, cfg))
    spec = draw(ops.draw_op(T, vals, AXIS_FAMILIES if deep else (FAMILIES or ALL_FAMILIES)))
    return {"a": a, "b": b, "spec": spec}


def strategy(tier):
    return strategy_()


def setup(flavour, tier):
    pass


from checks import known as K  # noqa: E402

KNOWN = K.PREDICATES


def pre_exclude(case):
    return K.pre_exclude(case["spec"], case["a"]) or K.pre_exclude(case["spec"], case["b"])


def case_label(case):
    from checks.modelcheck import region
    spec = case["spec"]
    T, V = M.decode(case["a"])
    return spec["op"] + (":" + spec["name"] if spec["op"] == "reduce" else "") + "|" + region(T, V, spec)


def run_case(case):
    a, b, spec = case["a"], case["b"], case["spec"]
    Ta, Va = M.decode(a)
    Tb, Vb = M.decode(b)
    if not M.same_value(Va, Vb):
        raise HarnessError("generator produced two encodings with different values")
    from checks.modelcheck import region
    if spec["op"] == "reduce" and ("'string'" in repr(Ta) or "'bytes'" in repr(Ta)):
        return {"discarded": "reducers are defined on numeric leaves, not on strings"}
    op = spec["op"] + (":" + spec["name"] if spec["op"] == "reduce" else "")
    bucket_tail = op + "|" + region(Ta, Va, spec)
    try:
        ka, ra, tva = run_checked(a, spec)
        kb, rb, tvb = run_checked(b, spec)
    except Violation as v:
        kind_, _, rest = v.bucket.partition(":")
        detail = rest.split(":", 1)[1] if ":" in rest else ""
        v.bucket = "%s:%s" % (kind_, bucket_tail) + ("#" + detail if detail else "")
        raise
    if ka != kb:
        raise Violation("errorclass:" + bucket_tail, "%s: encoding A gives %s, encoding B gives %s" % (op, ka, kb),
                        expected=[kb, str(rb)[:300]], observed=[ka, str(ra)[:300]])
    tags = ["op:" + spec["op"], "outcome:" + ka]
    if ka != "ok":
        return {"tags": tags, "nontrivial": False}
    if tva is not None or tvb is not None:
        if tva is None or tvb is None:
            raise Violation("resultkind:" + bucket_tail, "%s returns an array for one encoding and a scalar for the other" % op)
        if not M.same_value(tva[1], tvb[1]):
            raise Violation("value:" + bucket_tail, "%s differs between two encodings of the same value" % op,
                            expected=M.jsonable(tvb[1]), observed=M.jsonable(tva[1]))
        if isinstance(ra, L.Content) and isinstance(rb, L.Content) and not isinstance(ra, L.Record):
            # the statement demands equal values and outcomes; result *types* (option-ness, var vs regular) are only tallied
            if typestr(ra) != typestr(rb):
                tags.append("result_type_differs")
        nonempty = tva[1] is not None and tva[1] != []
    else:
        pa, pb = plain(ra), plain(rb)
        if spec["op"] == "tojson":
            import json
            pa, pb = json.loads(pa), json.loads(pb)
        if not M.same_value(pa, pb):
            raise Violation("value:" + bucket_tail, "%s differs between two encodings of the same value" % op, expected=pb, observed=pa)
        nonempty = True
    nontrivial = gen.noncanonical(a) and len(Va) > 0 and nonempty
    return {"tags": tags + sorted(gen.features(a) & {"offsets0!=0", "listarray_out_of_order", "width32", "numpy_noncontiguous", "ByteMaskedArray",
                                                     "BitMaskedArray", "UnmaskedArray", "numpy_nd", "regular_size0", "unreachable_suffix"}),
            "nontrivial": nontrivial, "sample_class": spec["op"]}
