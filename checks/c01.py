"""C01 - slicing selects exactly the elements Python/NumPy indexing would select (tier L)."""
import numpy as np
from hypothesis import strategies as st

from akgen import gen
from akmodel import core as M
from akmodel import slicing as S
from akshim import describe as D
from akshim import layout as L
from checks import known as K
from checks.common import classpath
from checks import ops
from vlib.common import Violation, HarnessError

ID = "C01"
MANIFEST = {
    "technique": "model-based property testing (Hypothesis): level-by-level slicing reference model (self-validated against NumPy on rectilinear data in every run) vs Content::getitem on generated physical encodings",
    "level_text": "Generated-input exploration: arrays in every list/option/record encoding x slice tuples of 1-4 items (integers incl. negative and overshooting, ranges with any bounds and steps, one ellipsis, newaxis, 1-2-d integer arrays with repeats, boolean masks, several broadcast arrays, index arrays with missing values, jagged integer/boolean arrays with missing entries, field and field-list items); the result must equal the reference model, an out-of-range index must raise and never return data, and only the documented unsupported combinations may be refused. On rectilinear inputs the model itself is compared with NumPy in the same run. Held on everything generated outside the recorded known findings.",
    "level_note": "Trusted: akmodel.slicing, akmodel.decode, the /verif bridge and its re-statement of toslice() from src/python/content.cpp (the binding itself cannot be compiled: the translation of Python index objects is modelled, not tested). Index arrays inside slices are given in generated encodings too (node class, index width, offset origin, option encoding, every integer leaf width, strided leaves whose gaps hold out-of-range numbers); n-d NumpyArray operands may be strided windows of a larger array, taken by NumPy or by the library's own range slicing.",
}
RULE = ("case = (physical description, slice tuple); expected = akmodel.slicing.getitem on the decoded value (value | IndexError | may-refuse); "
        "non-trivial = >= 2 items or an array/jagged/missing item, and the result is non-empty or an error is expected; distinct by hash of the case")
ASSUMPTIONS = ["boolean masks reach libawkward as integer arrays (numpy.nonzero), as the binding does; wrong-length masks are a binding-level check and are not generated here",
               "may-refuse classes: advanced indexes separated by basic ones, missing-value index mixed with other arrays, unions"]
PLAN = {
    "quick": [{"flavour": "plain", "cases": 30000}, {"flavour": "san", "cases": 4000}],
    "thorough": [{"flavour": "plain", "cases": 1200000}, {"flavour": "san", "cases": 300000}],
}
WALL_CAP = {"quick": 900, "thorough": 3300}
FORK_EACH = True
KNOWN = K.PREDICATES
CFG = gen.Cfg(max_depth=3, leaf_dtypes=("int64", "float64", "bool", "int32"), unions=False, unknown=False, zero_field_records=False, strings=True,
              named_records=True)


def list_levels(T):
    """(sizes below the top, type found under the list levels)"""
    sizes = []
    while True:
        T = M.strip_option(T)
        if T[0] == "list":
            sizes.append(None)
            T = T[1]
        elif T[0] == "regular":
            sizes.append(T[2])
            T = T[1]
        else:
            return sizes, T


def has_option_list(T):
    while True:
        if T[0] == "option" and M.strip_option(T)[0] in ("list", "regular"):
            return True
        T = M.strip_option(T)
        if T[0] in ("list", "regular"):
            T = T[1]
        else:
            return False


@st.composite
def int_array(draw, ndim, n):
    hi = max(n, 1)
    leaf = st.integers(-hi, hi - 1) if draw(st.integers(0, 9)) > 0 else st.integers(-hi - 1, hi)
    if ndim == 1:
        return draw(st.lists(leaf, min_size=0, max_size=4))
    a, b = draw(st.integers(1, 3)), draw(st.integers(0, 3))
    return [[draw(leaf) for _ in range(b)] for _ in range(a)]


@st.composite
def slice_items(draw, T, vals):
    sizes, leafT = list_levels(T)
    depth = 1 + len(sizes)
    n0 = len(vals)
    fields = [nm for nm, _ in leafT[1]] if leafT[0] == "record" else []
    mode = draw(st.sampled_from(["tuple", "tuple", "tuple", "tuple", "jagged", "jagged", "missing"]))
    if mode == "jagged" and depth >= 2 and not has_option_list(T):
        # one jagged index per list at level 1 (ints with repeats/negatives/None, or a boolean mask of the right length)
        out = []
        usebool = draw(st.booleans())
        for v in vals:
            if v is None:
                out.append(draw(st.sampled_from([None, []])))
                continue
            if draw(st.integers(0, 9)) == 0:
                out.append(None)
                continue
            m = len(v)
            if usebool:
                out.append([draw(st.booleans()) for _ in range(m)])
            else:
                k = draw(st.integers(0, 3))
                out.append([draw(st.one_of(st.integers(-m, m - 1), st.integers(-m, m - 1), st.none())) if m > 0 else None for _ in range(k)] if m > 0 else [])
        item = {"k": "jagged", "data": out}
        if draw(st.integers(0, 2)) > 0:
            # the index array in a generated physical encoding as well (added after the seeded change C01-b - a jagged
            # boolean mask whose offsets do not start at 0 - was missed): node class, index width, offset origin, option encoding;
            # and with every integer dtype in the leaf (after C01-d - narrow leaves behind a non-zero offsets origin - was missed)
            flat = [k for v in out if v is not None for k in v if k is not None]
            dts = ["int64", "int64", "int64", "int8", "int16", "int32"] + (["uint8", "uint16", "uint32", "uint64"] if all(k >= 0 for k in flat) else [])
            item["desc"] = draw(gen.encode(_jagged_type(out, draw(st.sampled_from(dts))), out, JCFG))
        elif draw(st.booleans()):
            # canonical nodes (ListOffsetArray64, which asslice() takes as it is) over a strided leaf whose gaps hold out-of-range numbers
            item["desc"] = _jagged_desc(out)
            leaf = item["desc"]
            while leaf["class"] != "NumpyArray":
                leaf = leaf["content"]
            leaf["phys"] = {"step": draw(st.sampled_from([2, 3, -1, -2])), "offset": draw(st.integers(0, 2)), "pad": draw(st.integers(0, 2)), "fill": 99}
        return [item]
    if mode == "missing" and n0 > 0:
        k = draw(st.integers(1, 4))
        data = [draw(st.one_of(st.integers(-n0, n0 - 1), st.none())) for _ in range(k)]
        items = [{"k": "missing", "data": data}]
        if depth >= 2 and draw(st.booleans()):
            items.append(draw(ops.simple_slice_item(3)))
            if items[-1]["k"] in ("array", "ellipsis", "newaxis"):
                items[-1] = {"k": "range", "start": None, "stop": 2, "step": None}
        return items
    k = draw(st.integers(1, 4))
    items = []
    level = 0
    stringleaf = leafT[0] in ("string", "bytes", "record")
    # strings are lists of characters for getitem and records are transparent (positional items continue into every
    # field): positional items never reach below them here, and a field item comes last, at most once
    seen_ellipsis = stringleaf
    for _ in range(k):
        if stringleaf and level >= depth:
            break
        n = n0 if level == 0 else (sizes[level - 1] if level - 1 < len(sizes) and sizes[level - 1] is not None else 3)
        kinds = ["at", "range", "range", "array", "newaxis"]
        if not seen_ellipsis:
            kinds.append("ellipsis")
        if level == 0 or (level - 1 < len(sizes) and sizes[level - 1] is not None):
            kinds.append("mask")
        kind = draw(st.sampled_from(kinds))
        if kind == "at":
            items.append({"k": "at", "i": draw(st.integers(-n - 1, n))})
            level += 1
        elif kind == "range":
            b = st.one_of(st.none(), st.integers(-n - 2, n + 2))
            items.append({"k": "range", "start": draw(b), "stop": draw(b), "step": draw(st.sampled_from([None, 1, 2, -1, -2, 3, n + 1, -(n + 1)]))})
            level += 1
        elif kind == "array":
            items.append({"k": "array", "data": draw(int_array(draw(st.sampled_from([1, 1, 1, 2])), n))})
            level += 1
        elif kind == "mask":
            items.append({"k": "mask", "data": [draw(st.booleans()) for _ in range(n)]})
            level += 1
        elif kind == "ellipsis":
            items.append({"k": "ellipsis"})
            seen_ellipsis = True
            level = depth
        elif kind == "newaxis":
            items.append({"k": "newaxis"})
    if fields and draw(st.booleans()):
        if draw(st.booleans()):
            items.append({"k": "field", "name": draw(st.sampled_from(fields + ["nosuch"]))})
        else:
            m = draw(st.integers(1, len(fields)))
            items.append({"k": "fields", "names": list(draw(st.permutations(fields))[:m])})
    if not items:
        items.append({"k": "range", "start": None, "stop": None, "step": None})
    return items


@st.composite
def strategy_(draw):
    T = draw(gen.types(CFG))
    vals = draw(gen.values(T, CFG))
    desc = gen.canonical(T, vals) if draw(st.integers(0, 4)) == 0 else draw(gen.encode(T, vals, CFG))
    return {"desc": desc, "items": draw(slice_items(T, vals))}


def strategy(tier):
    return strategy_()


def setup(flavour, tier):
    pass


def item_kinds(items):
    return "+".join(sorted(set(it["k"] for it in items)))


def case_label(case):
    return "getitem|" + item_kinds(case["items"])


def pre_exclude(case):
    return K.pre_exclude({"op": "getitem", "items": case["items"]}, case["desc"])


def realise(items, buffers):
    out = []
    for it in items:
        k = it["k"]
        if k == "mask":
            out.append(np.array(it["data"], dtype=np.bool_))
        elif k == "missing":
            data = it["data"]
            present = [x for x in data if x is not None]
            index, c = [], 0
            for x in data:
                if x is None:
                    index.append(-1)
                else:
                    index.append(c)
                    c += 1
            out.append(L.IndexedOptionArray64(L.Index64(np.array(index, dtype=np.int64)), L.NumpyArray(np.array(present, dtype=np.int64))))
        elif k == "jagged":
            out.append(D.build(it["desc"] if "desc" in it else _jagged_desc(it["data"])))
        else:
            out.append(ops.realise_slice_item(it))
    return tuple(out) if len(out) != 1 else out[0]


JCFG = gen.Cfg(max_depth=2, leaf_dtypes=("int64", "bool", "int8", "int16", "int32", "uint8", "uint16", "uint32", "uint64"), records=False, unions=False, strings=False, unknown=False, regular=False,
               numpy_nd=False, option_encodings=("IndexedOptionArray64", "IndexedOptionArray32", "ByteMaskedArray", "BitMaskedArray"))


def _jagged_type(data, dt="int64"):
    anybool = any(isinstance(k, bool) for v in data if v is not None for k in v)
    leaf = ["prim", "bool" if anybool else dt]
    inner_has_none = any(k is None for v in data if v is not None for k in v)
    ET = ["option", leaf] if inner_has_none else leaf
    T = ["list", ET]
    if any(v is None for v in data):
        T = ["option", T]
    return T


def _jagged_desc(data):
    """ListOffsetArray64 (option-wrapped where entries are None) of ints/bools (option-wrapped where None)"""
    return gen.canonical(_jagged_type(data), data)


def numpy_oracle(T, vals, items):
    """NumPy's answer when the value is rectilinear, option-free and every item is a NumPy item; else None"""
    sizes, leafT = list_levels(T)
    if leafT[0] != "prim" or "option" in repr(T) or any(s is None for s in sizes):
        return None
    if any(it["k"] not in ("at", "range", "ellipsis", "newaxis", "array", "mask") for it in items):
        return None
    arr = np.array(vals, dtype=np.dtype(leafT[1])).reshape([len(vals)] + sizes)
    idx = []
    for it in items:
        if it["k"] == "array":
            idx.append(np.array(it["data"], dtype=np.int64).reshape(S.shape_of(it["data"]) if it["data"] != [] else (0,)))
        elif it["k"] == "mask":
            idx.append(np.array(it["data"], dtype=np.bool_))
        else:
            idx.append(ops.realise_slice_item(it))
    try:
        out = arr[tuple(idx)]
    except IndexError:
        return ("error", None)
    return ("value", out.tolist())


def run_case(case):
    desc, items = case["desc"], case["items"]
    T, vals = M.decode(desc)
    sizes, leafT = list_levels(T)
    depth = 1 + len(sizes)
    label = item_kinds(items)
    # ---- expectation
    try:
        fieldnames = [nm for nm, _ in leafT[1]] if leafT[0] == "record" else None
        for it in items:
            if it["k"] == "field" and (fieldnames is None or it["name"] not in fieldnames):
                raise IndexError("no such field (decided by the type)")
            if it["k"] == "fields" and (fieldnames is None or any(nm not in fieldnames for nm in it["names"])):
                raise IndexError("no such field (decided by the type)")
        mn, mx = M.minmax_depth(T)
        if mn != mx and any(it["k"] == "ellipsis" for it in items):
            raise S.Refuse("ellipsis on a structure of different depths (documented refusal)")
        if items and items[0]["k"] == "jagged" and K.any_node(desc, lambda n: n["class"] == "NumpyArray" and len(n["shape"]) > 1):
            raise S.Refuse("jagged index on a multidimensional NumpyArray (undefined operation)")
        if items and items[0]["k"] == "jagged":
            expected = ("value", S.jagged(vals, items[0]["data"]))
        else:
            expected = ("value", S.getitem(vals, items, depth, [len(vals)] + sizes))
    except IndexError as e:
        expected = ("error", str(e))
    except S.Refuse as e:
        expected = ("refuse", str(e))
    # ---- model self-validation against NumPy
    no = numpy_oracle(T, vals, items)
    if no is not None and expected[0] != "refuse":
        if no[0] != expected[0] or (no[0] == "value" and not M.same_value(no[1], expected[1])):
            raise HarnessError("slicing model disagrees with NumPy: items=%r numpy=%r model=%r" % (items, no, expected))
    # ---- library
    buffers = []
    lay = D.build(desc, buffers)
    snaps = [b.tobytes() for b in buffers]
    kind, res = ops.outcome(lambda: lay[realise(items, buffers)])
    for b, s in zip(buffers, snaps):
        if b.tobytes() != s:
            raise Violation("purity:getitem|" + label, "an input buffer was modified by getitem", clause="C12-purity")
    if kind == "OtherNativeError":
        raise Violation("exception:getitem|" + label, "non-documented C++ exception: " + str(res)[:200], clause="C12-exception")
    tags = ["items:" + label, "expected:" + expected[0], "outcome:" + kind, "nitems:%d" % len(items)]
    if kind == "ok":
        got = None
        if isinstance(res, L.Content):
            if not isinstance(res, L.Record):
                err = res.validityerror()
                if err is not None:
                    from checks.common import closure_kind
                    raise Violation("closure:getitem|%s#%s" % (label, closure_kind(err)), "result of getitem on a valid array is invalid: " + err[:300], clause="C11-closure")
            try:
                got = D.value_of(res)[1]
            except M.Invalid as e:
                raise Violation("closure:getitem|%s#unevaluable" % label, "result of getitem cannot be evaluated: %s" % e, clause="C11-closure")
        else:
            got = res.item() if isinstance(res, np.generic) else res
        if expected[0] == "error":
            raise Violation("accepted:getitem|" + label, "an out-of-range or ill-formed index returned data instead of raising (%s)" % expected[1],
                            expected="error: " + str(expected[1]), observed=M.jsonable(got))
        if expected[0] == "value" and not M.same_value(got, expected[1]):
            raise Violation("value:getitem|" + label, "getitem differs from level-by-level selection", expected=M.jsonable(expected[1]), observed=M.jsonable(got))
    else:
        if expected[0] == "value":
            raise Violation("refused:getitem|" + label, "getitem raised %s on a well-formed in-range index: %s" % (kind, str(res)[:300]),
                            expected=M.jsonable(expected[1]), observed=[kind, str(res)[:300]])
    nontrivial = (len(items) >= 2 or items[0]["k"] in ("array", "mask", "jagged", "missing")) and \
        (expected[0] == "error" or (expected[0] == "value" and expected[1] not in ([], None)))
    return {"tags": tags, "nontrivial": nontrivial, "sample_class": label}
