"""Preconditions and generator hints for C13 that argument roles cannot express.

This file lists *preconditions* (domains the kernels are only ever called in) and generator
hints - never failures to ignore.  Genuine disagreements go to known_findings.jsonl.
"""
from hypothesis import strategies as st

# kernels excluded from the definition-based oracle, with the reason
SKIP = {}

# kname -> {argname: hint}; see hint_strategy
HINTS = {}

# kname -> predicate over the argument dict; False => outside the kernel's domain (discarded, counted)
PRECONDITIONS = {}

# known-finding predicates: name -> fn(case, violation_dict)
KNOWN = {}


def hint_strategy(h, n, m, args):
    kind = h[0]
    if kind == "int":
        return st.integers(h[1], h[2])
    if kind == "const":
        return st.just(h[1])
    if kind == "list_int":
        lo, hi, extra = h[1], h[2], (h[3] if len(h) > 3 else 0)
        return st.lists(st.integers(lo, hi), min_size=n + extra, max_size=n + extra)
    raise ValueError(h)
